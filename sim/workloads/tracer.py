"""Tracer workload (C17): triplets under one schedule.

A = class with TracerMixin, called with trace=...; B = same class, called without the keyword; C = class without the
mixin. Non-interference: return value / exception class and every series except the trace are equal across A, B, C after
every call; B's traces stay empty. Fidelity: the block a call appends to a period's trace is judged against the seam log
of B (same deterministic passes) - labels start, before, 0, 1..j[, end] and the values under each label.
"""
import numpy as np

from .. import import_fsic, probes, ref_solver, scripts, spans
from ..kernel import canon
from . import solver as S


def generate(rng, idx, tier, variant):
    parser = rng.random() < 0.3
    if parser:
        sched = S.gen_parser_schedule(rng, idx, tier)
        spec = sched['spec']
        pokes = [op for op in sched['ops'] if op['op'] == 'poke']
        names = list(spec['names'])
    else:
        spec = S.gen_spec(rng, 'solver_faults', tier)
        spec.pop('mixins', None)
        pokes = []
        names = spec['endo'] + spec['exo']
    np_err = rng.choice(['default'] * 6 + ['ignore', 'warn', 'raise', 'raise'])
    spec['_allow_huge'] = np_err != 'raise'
    int_model = (not parser) and rng.random() < 0.07
    if int_model:
        S.make_integer_model(rng, spec)  # values beyond 2**53: a snapshot that detours through float64 is not the stored value
    n, lags, leads = spec['span']['n'], spec['lags'], spec['leads']
    spec['trace_variables'] = None if rng.random() < 0.6 else rng.sample(names, rng.randint(1, len(names)))
    spec['names_as'] = rng.choice(['list'] * 4 + ['tuple'])  # (a sequence of names is a sequence of names: list or tuple)
    handles = list(names)
    if rng.random() < 0.25:
        # the tracer combined with the alias mixin (either order in the MRO); traced names may then be aliases
        spec['aliases'] = [[f'AL{i}', nm] for i, nm in enumerate(rng.sample(names, min(len(names), 2)))]
        spec['alias_first'] = rng.random() < 0.5
        handles = names + [a for a, _ in spec['aliases']]
    dup_labels = (not parser) and rng.random() < 0.06
    if dup_labels:
        spec['span']['type'] = 'list_dup'  # labels repeat (quarters over several years): periods are addressed by position
    ops = list(pokes)
    solved_specs = {}
    for _ in range(rng.choice([1, 2, 2, 3, 4])):
        faults = rng.random() < 0.6 and not int_model
        opts = S.gen_opts(rng, faults)
        if opts['max_iter'] > 300:
            # (every pass is recorded column by column here: thousands of snapshots only now and then)
            opts['max_iter'] = 1000 if rng.random() < 0.15 else rng.choice([255, 256, 300])
            opts['min_iter'] = min(opts['min_iter'], opts['max_iter'])
        if int_model:
            opts['tol'] = rng.choice([1, 2])
            opts['errors'] = 'raise'
        if opts['errors'] == 'bogus':
            opts['errors'] = 'replace'
        opts['offset'] = rng.choice([0, 0, 0, -1, 1, -2, n + 1])
        r = rng.random()
        if r < 0.4:
            tr = True
        elif r < 0.75:
            tr = rng.sample(handles, rng.randint(1, len(names)))
        else:
            tr = rng.choice(handles)
        reset = rng.random() < 0.15
        off_call = rng.random() < 0.2  # this call is made with tracing off on the traced party too
        off_as = None
        if off_call:
            tr = None
            off_as = rng.choice(['None', 'False', 'False', '0', 'np.False_', 'empty-list', 'empty-str', 'omitted'])  # every falsy spelling is 'off'
            reset = False
        entry = rng.choice(['solve_t', 'solve_t', 'solve_period', 'solve']) if not dup_labels else 'solve_t'
        tn = rng.randint(lags, n - 1 - leads)
        bad_t = None
        if entry != 'solve' and rng.random() < 0.1:
            # a position the model must refuse (inside the lag / lead margins, or outside the span altogether), alone or
            # together with a second invalid argument: refused the same way with and without tracing
            inside = list(range(0, lags)) + list(range(n - leads, n))
            outside = [n, n + 2, -n - 1]
            if entry == 'solve_t' and (not inside or rng.random() < 0.5):
                bad_t = rng.choice(outside)
            elif inside:
                bad_t = rng.choice(inside)
            if bad_t is not None:
                tn = bad_t
                if rng.random() < 0.5:
                    opts['min_iter'] = opts['max_iter'] + 1
        # repeated solve of a period with another trace specification: generated rarely and marked (known finding F9)
        key = canon(tr)
        respecified = False
        if off_call:
            pass
        elif entry != 'solve':
            prev = solved_specs.get(tn)
            if prev is not None and prev != key and not reset:
                if rng.random() < 0.85:
                    tr = prev if prev is True or isinstance(prev, str) else list(prev)
                    key = prev
                else:
                    respecified = True
            solved_specs[tn] = key
        else:
            bad = any(v != key for v in solved_specs.values())
            if bad and not reset:
                if rng.random() < 0.85:
                    reset = True
                else:
                    respecified = True
            for p in range(lags, n - leads):
                solved_specs[p] = key
        op = {
            'op': entry,
            't': tn if (bad_t is not None and not 0 <= tn < n) else tn - n if (entry == 'solve_t' and rng.random() < 0.3) else tn,
            'form': rng.choice([0, 1]),
            'opts': opts,
            'trace': tr,
            'reset': reset,
            'respecified': respecified,
            'off_as': off_as,
        }
        if spec['kind'] == 'scripted':
            plan, placed = S.gen_plan(rng, opts, spec, faults, idx)
            if int_model:
                plan = S.integer_plan(plan)
            op['plan'] = {'*': plan}
            if rng.random() < 0.12 and not int_model:
                # user code that calls back into the library while a (traced) solve is under way; a nested solve of
                # another period only from single-period entries (a multi-period solve would meet that period again)
                single_ok = entry != 'solve' and bad_t is None
                plan['cb'] = S.gen_callbacks(rng, spec, opts, tn if single_ok else None, S.SAFE_CALLBACKS + (['nested_solve'] * 3 if single_ok else []))
            if rng.random() < 0.03 and not off_call and not int_model:
                # a very long trace (well past a hundred snapshots) of several variables
                opts.update({'max_iter': 140, 'min_iter': 0, 'failures': 'ignore', 'errors': 'ignore', 'tol': 2.0**-10, 'offset': 0})
                op['plan'] = {'*': {'passes': [], 'default': {'a': 'delta', 'd': [1.0] * len(spec['endo'])}}}
                op['trace'] = True if spec.get('trace_variables') is None else list(names)
                placed = []
            if 'preexisting' in placed:
                ops.append({'op': 'poke', 'name': rng.choice(names), 'pos': tn, 'v': rng.choice(['nan', 'inf'])})
        ops.append(op)
        if rng.random() < 0.12:
            ops.append({'op': 'copy', 'route': rng.choice(['copy', 'copy.copy', 'deepcopy'])})
        if rng.random() < 0.12 and not dup_labels:
            # the history continues on reindexed objects: periods that are new have no trace yet, the others keep theirs
            shift, grow = rng.choice([-2, -1, 0, 1, 2, 3]), rng.choice([0, 0, 1, 2])
            ops.append({'op': 'reindex', 'shift': shift, 'grow': grow, 'fill': 7 if int_model else rng.choice([0.5, 0.5, None])})
            n = n + grow
            spec_shift = shift
            solved_specs = {i - spec_shift: v for i, v in solved_specs.items() if 0 <= i - spec_shift < n}
        if rng.random() < 0.2:
            ops.append({'op': 'add_variable', 'name': f'N{len(ops)}', 'v': rng.choice(S.DYADS) if not int_model else S.BIG + rng.randrange(64)})
        elif rng.random() < 0.2:
            ops.append({'op': 'poke', 'name': rng.choice(names), 'pos': rng.randrange(n), 'v': rng.choice(S.DYADS) if not int_model else S.BIG + rng.randrange(64)})
    spec.pop('_allow_huge', None)
    if rng.random() < 0.05 and spec['span']['type'] not in ('list_dup',):
        # the less-travelled route to the same object: constructed on an empty span of its kind, then reindexed onto the
        # span of the run and filled by assignment (all three parties alike)
        spec['born_empty'] = True
    return {'spec': spec, 'ops': ops, 'np_err': np_err}


def build_triplet(fsic, spec, ctx=None):
    from fsic.extensions import TracerMixin

    span = spans.make_span(spec['span'])
    if spec['kind'] == 'scripted':
        base = probes.make_scripted(fsic, spec)
        endo, check = list(spec['endo']), list(spec['check'])
    else:
        raw = probes.build_parser_class(fsic, spec, ctx)
        if raw is None:
            raise S.BuildFailed()
        base = probes.make_probed(fsic, raw)
        endo, check = list(raw.ENDOGENOUS), list(raw.CHECK)
    if spec.get('aliases'):
        from fsic.extensions import AliasMixin

        order = (AliasMixin, TracerMixin) if spec.get('alias_first') else (TracerMixin, AliasMixin)
        traced = type('Traced', order + (base,), {'TRACE_VARIABLES': _seq(spec, spec.get('trace_variables')), 'ALIASES': dict(map(tuple, spec['aliases']))})
    else:
        traced = type('Traced', (TracerMixin, base), {'TRACE_VARIABLES': _seq(spec, spec.get('trace_variables'))})
    out = []
    for cls in (traced, traced, base):
        if spec.get('born_empty'):
            m = probes.new_scripted_instance(cls, spans.make_span(dict(spec['span'], n=0)), {}, **S._dtype_kw(spec)).reindex(spans.make_span(spec['span']))
            for nm_, vals_ in spec['init'].items():
                m.__dict__['_' + nm_][:] = np.array([probes.fval(v) for v in vals_], dtype=m.__dict__['_' + nm_].dtype)
            probes.attach_ctl(m)
            if ctx is not None:
                ctx.probe('constructed-on-an-empty-span-then-reindexed')
            probes.get_ctl(m).columns = True
            out.append(m)
            continue
        m = probes.new_scripted_instance(cls, spans.make_span(spec['span']), spec['init'], **S._dtype_kw(spec))
        probes.get_ctl(m).columns = True
        out.append(m)
    return out, span, endo, check


def _seq(spec, x):
    return tuple(x) if (isinstance(x, list) and spec.get('names_as') == 'tuple') else x


def _out(fn):
    try:
        return {'kind': 'return', 'value': fn()}
    except Exception as e:
        return {'kind': 'raise', 'exc': e}


def _cls(o):
    return 'return' if o['kind'] == 'return' else type(o['exc']).__name__


def _trace_names(m, tr, spec):
    if isinstance(tr, str):
        return [tr]
    if isinstance(tr, list):
        return list(tr)
    tv = spec.get('trace_variables')
    return list(tv) if tv is not None else list(m.__dict__['names'])


def _val_eq(a, b):
    b = probes.num(b)
    if isinstance(b, int) and not isinstance(b, bool) and isinstance(a, (int, float, np.integer, np.floating)):
        return probes.num(a) == b  # an integer recorded exactly: compared exactly (no detour through float64)
    try:
        fa, fb = float(a), float(b)
    except (TypeError, ValueError):
        return str(a) == str(b)
    return fa == fb or (fa != fa and fb != fb)


def execute(schedule, ctx):
    fsic = import_fsic()
    spec = schedule['spec']
    try:
        (A, B, C), span, endo, check = build_triplet(fsic, spec, ctx)
    except S.BuildFailed:
        ctx.log('build-failed')
        return
    n = len(span)
    lags, leads = spec['lags'], spec['leads']
    chk = lambda sig, ok, detail=None: ctx.check('C17', sig, ok, detail)  # noqa: E731
    alias_of = dict(map(tuple, spec.get('aliases', [])))
    if alias_of:
        ctx.probe('tracer-combined-with-alias-mixin')
    if spec['span']['type'] == 'list_dup':
        ctx.probe('repeated-labels-positional-solve')
    kept = []  # (original left behind by a copy, observation of its traces at that moment)
    # what each period's trace is expected to hold so far: (names, labels, columns)
    expected = {p: {'names': None, 'labels': [], 'cols': []} for p in range(n)}  # names None <=> trace still empty
    if spec.get('born_empty'):
        for e_ in expected.values():
            e_['fresh'] = True  # (every period came into being by reindex(): nothing is recorded for it, whatever its cell holds)

    for step, op in enumerate(schedule['ops']):
        ctx.step = step
        if op['op'] == 'poke':
            for m in (A, B, C):
                if op['name'] in m.__dict__['index'] and 0 <= op['pos'] < n:
                    m.__dict__['_' + op['name']][op['pos']] = op['v'] if isinstance(op['v'], int) else probes.fval(op['v'])
            ctx.log(step, 'poke')
            ctx.outcome('poke', 'ok')
            continue
        if op['op'] == 'copy':
            # from here on the history continues on copies; what the originals recorded must stay as it is
            import copy as _copy

            mk = (lambda m: m.copy()) if op['route'] == 'copy' else _copy.copy if op['route'] == 'copy.copy' else _copy.deepcopy
            kept.append((A, _trace_obs(A)))
            A, B, C = mk(A), mk(B), mk(C)
            for m in (A, B, C):
                probes.get_ctl(m).columns = True
            ctx.probe('history:copy')
            ctx.log(step, 'copy')
            ctx.outcome('copy', 'ok')
            continue
        if op['op'] == 'reindex':
            old_labels = list(span)
            new_spec = dict(spec['span'], origin=spec['span'].get('origin', 0) + op['shift'], n=n + op['grow'])
            spec = dict(spec, span=new_spec)
            kept.append((A, _trace_obs(A)))
            kw_ = {} if op['fill'] is None else {'fill_value': op['fill']}
            A, B, C = (m.reindex(spans.make_span(new_spec), **kw_) for m in (A, B, C))
            for m in (A, B, C):
                probes.get_ctl(m).columns = True
            span = A.__dict__['span']
            n = len(span)
            # periods are the same period where their labels are equal: those keep what was recorded for them; for a new
            # period nothing is recorded yet (whatever its cell holds until then), and a traced solve there behaves as
            # an untraced one does and leaves exactly its own block
            new_expected = {}
            for j, lab in enumerate(list(span)):
                src = [i for i, old in enumerate(old_labels) if _lab_eq(old, lab)]
                new_expected[j] = expected[src[0]] if src else {'names': None, 'labels': [], 'cols': [], 'fresh': True}
                if not src:
                    ctx.probe('reindex:new-period-without-trace')
            expected = new_expected
            ctx.probe('history:reindex')
            _check_traces(A, expected, chk, n, 'after-reindex')
            ctx.log(step, 'reindex', op['shift'], op['grow'])
            ctx.outcome('reindex', 'ok')
            continue
        if op['op'] == 'add_variable':
            for m in (A, B, C):
                if op['name'] not in m.__dict__['index']:
                    m.add_variable(op['name'], op['v'])
            ctx.probe('add_variable-after-trace')
            _check_traces(A, expected, chk, n, 'after-add_variable')
            ctx.log(step, 'add_variable')
            ctx.outcome('add_variable', 'ok')
            continue

        opts = op['opts']
        tr, reset = op['trace'], op.get('reset', False)
        entry = op['op']
        tn = op['t'] + n if op['t'] < 0 else op['t']
        snap = ref_solver.snapshot(A)
        for m in (A, B, C):
            probes.get_ctl(m).arm(op.get('plan'))

        def call(m, **extra):
            if entry == 'solve_t':
                return m.solve_t(op['t'], **S.solver_kwargs(opts), **extra)
            if entry == 'solve_period':
                return m.solve_period(spans.label_forms(spec['span'], span, tn, op.get('form', 0)), **S.solver_kwargs(opts), **extra)
            return m.solve(**S.solver_kwargs(opts), **extra)

        tracing = bool(tr)
        extra = {'trace': _seq(spec, tr)} if (tr is not None) else {}
        if not tracing and op.get('off_as') not in (None, 'omitted', 'None'):
            extra = {'trace': {'False': False, '0': 0, 'np.False_': np.bool_(False), 'empty-list': [], 'empty-str': ''}[op['off_as']]}
            ctx.probe('tracing-off-spelt:' + op['off_as'])
        elif not tracing and op.get('off_as') == 'None':
            extra = {'trace': None}
        if reset:
            extra['reset'] = True
        names = _trace_names(A, tr, spec) if tracing else None
        if entry == 'solve':
            planned = list(range(lags, n - leads)) if opts['min_iter'] <= opts['max_iter'] else []
        elif not 0 <= tn < n:
            planned = []  # no such period: the call must be refused, and no trace anywhere may change
            ctx.probe('position-outside-span' + ('+min_iter>max_iter' if opts['min_iter'] > opts['max_iter'] else ''))
        else:
            planned = [tn]
            if not lags <= tn < n - leads:
                ctx.probe('position-inside-lag/lead-margin' + ('+min_iter>max_iter' if opts['min_iter'] > opts['max_iter'] else ''))
        # a period whose non-empty trace was recorded for other variables is being appended to: known finding F9
        respec = tracing and (not reset) and any(expected[p]['names'] is not None and expected[p]['names'] != names for p in planned)
        if not tracing:
            ctx.probe('tracing-off-call-on-traced-party')
        oA = _out(lambda: call(A, **extra))
        # B: the same class without the keyword; for solve() the per-period loop (equivalent by C05) so that the
        # period at which it stopped is known
        attempted = []
        if entry == 'solve' and planned:
            oB = {'kind': 'return', 'value': None}
            flags = []
            for p in planned:
                attempted.append(p)
                o = _out(lambda: B.solve_t(p, **S.solver_kwargs(opts)))
                if o['kind'] == 'raise':
                    oB = o
                    break
                flags.append(o['value'])
            else:
                oB = {'kind': 'return', 'value': ([span[p] for p in planned], planned, flags)}
        else:
            oB = _out(lambda: call(B))
            attempted = list(planned)
        oC = _out(lambda: call(C))
        pA, pB, pC = (ref_solver.snapshot(m) for m in (A, B, C))
        for what_, res_ in probes.get_ctl(A).callbacks:
            ctx.fault('callback-into-library' if res_ == 'ok' else 'callback-into-library-raised')
            ctx.probe('callback:' + what_)
        if tr is True or not tracing:
            # what the user's own code meets when it calls back into the library (another model solved with the keywords
            # the hook was given, a copy, an export ...) is the same with and without tracing
            cbA, cbB = probes.get_ctl(A).callbacks, probes.get_ctl(B).callbacks
            if entry != 'solve' and not respec and _cls(oA) == _cls(oB):
                chk('interference/callback-outcomes', cbA == cbB, {'traced': cbA[:6], 'untraced': cbB[:6]})
        if spec['kind'] == 'parser':
            # equations built from a script fault arithmetically or not at all (with or without tracing)
            for r_ in probes.get_ctl(A).log:
                if r_['hook'] == 'eval':
                    ok_ = r_['exc'] in (None, 'RuntimeWarning', 'FloatingPointError', 'ZeroDivisionError', 'OverflowError', 'SimInterrupt') or (r_['exc'] == 'IndexError' and S.shorter_than_script(spec))
                    chk('pass/generated-code-raised-a-non-arithmetic-exception', ok_, {'exc': r_['exc']})
        S.count_faults(ctx, probes.get_ctl(B).log, opts)
        ctx.count('passes', sum(1 for r in probes.get_ctl(A).log if r['hook'] == 'eval'))
        ctx.count('steps', len(probes.get_ctl(A).log))
        ctx.probe(f"entry:{entry}:trace={'True' if tr is True else 'list' if isinstance(tr, list) else 'name' if tr else 'off'}")
        if reset:
            ctx.probe('reset=True')
        if respec:
            ctx.probe('respecified-trace')

        # ---- non-interference
        skip = ('trace',)
        if respec and _cls(oA) == 'ValueError' and _cls(oB) != 'ValueError':
            chk('respecified-trace-raises', False, {'traced': _cls(oA), 'untraced': _cls(oB), 'trace': canon(tr)})
        else:
            chk('interference/outcome-class', _cls(oA) == _cls(oB) == _cls(oC), {'traced': _cls(oA), 'untraced': _cls(oB), 'no-mixin': _cls(oC), 'opts': opts, 'trace': canon(tr), 'entry': entry})
            if oA['kind'] == 'return':
                same = _ret_eq(oA['value'], oB.get('value')) and _ret_eq(oA['value'], oC.get('value'))
                chk('interference/return-value', same, {'traced': canon(oA['value']), 'untraced': canon(oB.get('value'))})
            dAB = ref_solver.diff_cells({k: v for k, v in pA.items() if k not in skip}, {k: v for k, v in pB.items() if k not in skip})
            dBC = ref_solver.diff_cells({k: v for k, v in pB.items() if k not in skip}, pC)
            chk('interference/state-traced-vs-untraced', not dAB, {'differs': dAB[:8], 'opts': opts})
            chk('interference/state-mixin-vs-plain', not dBC, {'differs': dBC[:8], 'opts': opts})
            la = [(r['hook'], r['tn'], r['k'], r['iteration'], r['exc']) for r in probes.get_ctl(A).log]
            lb = [(r['hook'], r['tn'], r['k'], r['iteration'], r['exc']) for r in probes.get_ctl(B).log]
            lc = [(r['hook'], r['tn'], r['k'], r['iteration'], r['exc']) for r in probes.get_ctl(C).log]
            if entry == 'solve':
                lb = la if _same_multiset_by_period(la, lb) else lb
            chk('interference/same-passes', la == lb == lc, {'traced': la[:10], 'untraced': lb[:10], 'plain': lc[:10]})
        chk('tracing-off/no-trace-written', all(t_.is_empty() and not t_.index for t_ in B.__dict__['_trace'] if _is_trace(t_)), None)

        # ---- fidelity: extend the expectation with the block this call must have appended, from B's seam log
        if respec:
            for p in planned:
                # what (if anything) was appended before the failure is not tracked: names unknown from here on
                expected[p] = {'names': expected[p]['names'] if (expected[p]['names'] is not None and _cls(oA) != 'ValueError') else '?', 'labels': None, 'cols': None}
        elif not tracing:
            # with tracing off no trace is written: every period's trace must be exactly what it was
            _check_traces(A, expected, chk, n, entry + '/tracing-off')
        else:
            logB = probes.get_ctl(B).log
            for p in attempted:
                recs = [r for r in logB if r['tn'] == p]
                labels = ['start']
                cols = [{nm: snap[nm][p] for nm in snap if nm not in ('status', 'iterations', 'trace')}]
                before = [r for r in recs if r['hook'] == 'before']
                if before:
                    labels.append('before')
                    cols.append(before[0]['pre_all'])
                    if before[0]['exc'] is None:
                        labels.append(0)
                        cols.append(before[0]['post_all'])
                        j = 0
                        for r in recs:
                            if r['hook'] == 'eval' and r['exc'] is None:
                                j += 1
                                labels.append(j)
                                cols.append(r['post_all'])
                        after = [r for r in recs if r['hook'] == 'after']
                        if after and after[0]['exc'] is None:
                            labels.append('end')
                            cols.append(after[0]['post_all'])
                e = expected[p]
                if reset:
                    # every snapshot re-initialises the trace: only non-interference is asserted (DESIGN 3, C17);
                    # the names are remembered so that a later re-specification is recognised
                    expected[p] = {'names': names, 'labels': None, 'cols': None}
                    continue
                if e['names'] is None:
                    e['names'] = names
                if e['labels'] is None:
                    continue
                e['labels'] = e['labels'] + labels
                e['cols'] = e['cols'] + [[c.get(alias_of.get(nm, nm)) for nm in e['names']] for c in cols]
                if labels[-1] == 'end':
                    ctx.probe('trace-of-solved-period')
                    tr_obj = A.__dict__['_trace'][p]
                    if _is_trace(tr_obj) and not tr_obj.is_empty() and len(tr_obj.index) == len(e['labels']) and tr_obj.values.shape[0] == len(e['names']):
                        ok = all(_val_eq(tr_obj.values[i, -1], pA[alias_of.get(nm, nm)][p]) for i, nm in enumerate(e['names']) if alias_of.get(nm, nm) in pA)
                        chk('fidelity/final-snapshot-is-stored-solution', ok, {'period': p})
                else:
                    ctx.probe('trace-of-unsolved-period:' + str(labels[-1] if isinstance(labels[-1], str) else 'pass'))
            _check_traces(A, expected, chk, n, entry)

        for orig_, tobs_ in kept:
            chk('fidelity/original-trace-changed-by-solving-its-copy', _trace_obs(orig_) == tobs_, None)
        # a period that this call left solved has a trace ending in 'end' (when it was traced without reset)
        if tracing and not respec and not reset:
            for p in attempted:
                if expected[p]['labels'] is not None and str(pA['status'][p]) == '.' and oA['kind'] == 'return':
                    got_ = _labels_of(A.__dict__['_trace'][p]) or []
                    chk('fidelity/solved-period-trace-ends-with-end', bool(got_) and got_[-1] == 'end', {'period': p, 'labels': got_[-4:]})
        ctx.log(step, entry, _cls(oA), _cls(oB), [str(x) for x in pA['status'].tolist()], pA['iterations'].tolist(), [_labels_of(t_) for t_ in A.__dict__['_trace']])
        ctx.outcome(entry, f"{_cls(oA)}:{'reset' if reset else ''}")
        ctx.state([entry, _cls(oA), [len(t_.index) if _is_trace(t_) else -1 for t_ in A.__dict__['_trace']], [str(x) for x in pA['status'].tolist()]])
        # keep the three parties in step whatever happened
        for m in (B, C):
            for nm, arr in pA.items():
                if nm != 'trace' and nm in m.__dict__['index']:
                    m.__dict__['_' + nm][:] = arr


def _is_trace(x):
    return type(x).__name__ == 'Trace'


def _one_trace_obs(t_):
    try:
        return [list(map(str, t_.names)), [str(x) for x in t_.index], canon(np.asarray(t_.values).tolist())]
    except Exception as e:  # a record that cannot even be read back
        return ['unreadable', type(e).__name__]


def _trace_obs(m):
    return [_one_trace_obs(t_) if _is_trace(t_) else None for t_ in m.__dict__['_trace'].tolist()]


def _labels_of(t_):
    return [str(x) for x in t_.index] if _is_trace(t_) else None


def _lab_eq(a, b):
    try:
        return bool(a == b)
    except Exception:
        return False


def _ret_eq(a, b):
    if isinstance(a, tuple) and isinstance(b, tuple) and len(a) == len(b) == 3:
        return [str(x) for x in a[0]] == [str(x) for x in b[0]] and list(a[1]) == list(b[1]) and [bool(x) for x in a[2]] == [bool(x) for x in b[2]]
    return canon(a) == canon(b)


def _same_multiset_by_period(la, lb):
    return la == lb


def _check_traces(A, expected, chk, n, when):
    for p in range(n):
        e = expected[p]
        if e['labels'] is None:
            continue
        t_ = A.__dict__['_trace'][p]
        if not _is_trace(t_) and e.get('fresh') and e['names'] is None:
            continue  # a period that reindex() added and nothing has been traced in yet: whatever it holds, it is no record
        if not _is_trace(t_):
            chk('fidelity/recorded-trace-lost', False, {'period': p, 'holds': type(t_).__name__, 'when': when})
            continue
        if e['names'] is None:
            chk('fidelity/untouched-period-has-empty-trace', t_.is_empty() and not t_.index, {'period': p})
            continue
        got_labels = list(t_.index)
        chk('fidelity/labels', [str(x) for x in got_labels] == [str(x) for x in e['labels']], {'period': p, 'got': [str(x) for x in got_labels], 'want': [str(x) for x in e['labels']], 'when': when})
        if [str(x) for x in got_labels] != [str(x) for x in e['labels']]:
            continue
        chk('fidelity/names', list(t_.names) == list(e['names']), {'period': p, 'got': list(t_.names), 'want': list(e['names']), 'when': when})
        try:
            vals = np.asarray(t_.values)
        except Exception as ex_:
            chk('fidelity/record-cannot-be-read-back', False, {'period': p, 'exc': type(ex_).__name__, 'when': when})
            continue
        ok_shape = vals.shape == (len(e['names']), len(e['labels']))
        chk('fidelity/shape', ok_shape, {'period': p, 'got': list(vals.shape), 'want': [len(e['names']), len(e['labels'])]})
        if not ok_shape:
            continue
        for j, col in enumerate(e['cols']):
            bad = [(e['names'][i], canon(vals[i, j]), canon(col[i])) for i in range(len(col)) if col[i] is not None and not _val_eq(vals[i, j], col[i])]
            if bad:
                chk('fidelity/values', False, {'period': p, 'label': str(e['labels'][j]), 'mismatch': bad[:4], 'when': when})
                break
        else:
            chk('fidelity/values', True)
