"""Frame and read-set workload (C04): parser-built models, every period position in both spellings including the
infeasible ones, solve() with every (start, end) choice, recording arrays on every series.

Schedule: {'spec': {...parser spec incl. 'reads' ground truth...}, 'ops': [poke | solve_t | solve_period | solve]}
"""
import numpy as np

from .. import REPO, import_fsic, probes, ref_solver, scripts, spans
from . import solver as S


STRING_LABELLED = ['list_str', 'list_str_sp', 'np_str', 'pd_index_str']


def generate(rng, idx, tier, variant):
    max_lag, max_lead = rng.choice([0, 1, 2, 3]), rng.choice([0, 0, 1, 2, 3])
    sp_type = rng.choice(STRING_LABELLED if variant == 'frame_labels' else spans.TYPES)
    sp_origin = rng.choice([0, 2, 5])
    labels = None
    if sp_type in STRING_LABELLED and (variant == 'frame_labels' or rng.random() < 0.3):
        # terms that address a period by its label (read a labelled period, average over a label slice, assign a
        # labelled period): drawn from the first periods of the span, which every span of this run has
        labels = [str(x) for x in spans.elements(spans.make_span({'type': sp_type, 'n': max_lag + max_lead + 1, 'origin': sp_origin}))]
    prog = scripts.gen_program(rng, max_eq=4, max_lag=max_lag, max_lead=max_lead, allow_funcs=True, labels=labels)
    build = probes.build_options(rng, prog)
    lags, leads = probes.expected_lags_leads(prog['lags'], prog['leads'], build)
    n = max(lags + leads, max_lag + max_lead) + rng.randint(1, 6)
    sp = {'type': sp_type, 'n': n, 'origin': sp_origin}
    label_terms = prog['label_terms'] if labels else {'reads': [], 'slices': [], 'lhs': []}
    has_labels = any(label_terms.values())
    spec = {
        'kind': 'parser',
        'script': prog['script'],
        'endo': prog['endo'],
        'names': prog['names'],
        'reads': prog['reads'],
        'lags': lags,
        'leads': leads,
        'lags_script': prog['lags'],
        'leads_script': prog['leads'],
        'declared': prog['declared'],
        'build': build,
        'label_terms': label_terms,
        'span': sp,
        'init': scripts.gen_data(rng, prog, n),
        'init_via': rng.choice(['dict', 'dict', 'kwargs', 'kwargs-shared']),
    }
    ops = []
    for _ in range(rng.randint(2, 5)):
        if rng.random() < 0.1:
            # the instance-level check list is the user's to extend (here: by a variable no equation assigns)
            ops.append({'op': 'grow_check', 'k': rng.randrange(4)})
        if rng.random() < 0.08:
            # one array of the caller's assigned, whole, to an endogenous and to another variable (attribute or key path)
            ops.append({'op': 'assign_shared', 'k': rng.randrange(8), 'via': rng.choice(['attr', 'item', 'replace_values'])})
        if rng.random() < 0.06:
            # the instance's own lag / lead lengths raised after construction (`model.lags = 3`): from then on they, not the
            # class's, bound the default range and decide which explicit requests are refused
            ops.append({'op': 'widen_margins', 'dl': rng.choice([0, 1, 1, 2]), 'dd': rng.choice([0, 1, 1, 2])})
        if ops and rng.random() < 0.2 and not has_labels:
            # history: the model is replaced by a reindexed version of itself (shifted, shrunk or grown)
            dn = rng.choice([0, 0, -1, -2, 1, 2])
            n2 = max(lags + leads + 1, n + dn)
            ops.append({'op': 'reindex', 'shift': rng.choice([0, 1, 2, -1]), 'n': n2})
            n = n2
        opts = S.gen_opts(rng, True)
        if opts['errors'] == 'bogus':
            opts['errors'] = 'ignore'
        opts['max_iter'] = rng.choice([0, 1, 2, 3, 5, 10])
        opts['min_iter'] = rng.choice([0, 0, 1, 2])
        if opts['min_iter'] > opts['max_iter'] and rng.random() < 0.85:
            opts['min_iter'] = opts['max_iter']
        opts['tol'] = rng.choice([1e-10, 1e-6, 2.0**-10, 0.5])
        opts['offset'] = rng.choice([0, 0, 0, 0, -1, 1, -2, 2, n, -n])
        if rng.random() < 0.3:
            nm = rng.choice(prog['names'])
            ops.append({'op': 'poke', 'name': nm, 'pos': rng.randrange(n), 'v': rng.choice([0.0, -1.0, 1e308, 'nan', 'inf', 750.0])})
            if rng.random() < 0.25:
                ops[-1]['reassign'] = True  # the whole series assigned anew from a list (the container stores a new array)
        intr = {'line': rng.randint(1, 40 + 60 * rng.choice([1, 1, 2, 4]))} if rng.random() < 0.1 else None
        r = rng.random()
        if r < 0.6:
            # any position, feasible or not; the run index walks the positions so that each is hit in turn
            tn = (idx + len(ops)) % n if rng.random() < 0.5 else rng.randrange(n)
            t = tn - n if rng.random() < 0.4 else tn
            ops.append({'op': 'solve_period' if rng.random() < 0.3 else 'solve_t', 't': t, 'form': rng.choice([0, 1]), 'opts': opts, 'interrupt': intr})
        else:
            a = rng.choice([None, None] + list(range(n)))
            b = rng.choice([None, None] + list(range(n)))
            ops.append({'op': 'solve', 'start': a, 'end': b, 'opts': opts, 'interrupt': intr})
        if rng.random() < 0.12:
            # the same request made through a linker that wraps the model: it is still this model's period being solved
            ops[-1]['via_linker'] = True
    return {'spec': spec, 'ops': ops}


def _norm(i, n):
    return i + n if i < 0 else i


def label_positions(spec, span):
    """Where the labelled terms of the script point in this span: ({name: {position}}, {name: {(lo, hi)}}, {name: position})."""
    lt = spec.get('label_terms') or {'reads': [], 'slices': [], 'lhs': []}
    labs = [str(x) for x in spans.elements(span)]

    def pos(lab):
        return labs.index(lab) if lab in labs else None

    reads, slices, lhs = {}, {}, {}
    for nm, lab in lt['reads']:
        if pos(lab) is not None:
            reads.setdefault(nm, set()).add(pos(lab))
    for nm, la, lb in lt['slices']:
        if pos(la) is not None and pos(lb) is not None:
            slices.setdefault(nm, set()).add((pos(la), pos(lb)))
    for nm, lab in lt['lhs']:
        if pos(lab) is not None:
            lhs[nm] = pos(lab)
    return reads, slices, lhs


def _judge_reads(sink, spec, n, lags, leads, endo, chk, P, span=None, chk10=None):
    """Walk the recorded accesses. Inside an evaluation pass of a feasible period every read must be at a written offset
    (or at the period a labelled term names), every write at (endogenous, t) (or at the period a labelled left-hand side
    names) - and every labelled term of the script must have been served from the period carrying its label."""
    reads = {k: set(v) for k, v in spec['reads'].items()}
    lab_reads, lab_slices, lab_lhs = label_positions(spec, span) if span is not None else ({}, {}, {})
    chk10 = chk10 or (lambda *a, **k: None)
    cur = None  # (hook, raw t) of the seam call in progress
    seen = None
    maxlag_hit = maxlead_hit = False

    def close_block(t):
        # every labelled term was evaluated in this pass: each must have addressed its own period
        if seen is None:
            return
        tn_ = _norm(t, n)
        if not (lags <= tn_ <= n - 1 - leads) or seen.get('raised'):
            return
        for nm, ps in lab_reads.items():
            for p_ in ps:
                ok_ = (nm, p_) in seen['r']
                chk('reads/labelled-term-read-its-period', ok_, {'name': nm, 'position': p_, 't': t})
                chk10('generated-code/labelled-term-addresses-its-period', ok_, {'name': nm, 'position': p_, 't': t})
        for nm, ss in lab_slices.items():
            for lo, hi in ss:
                ok_ = (nm, lo, hi) in seen['s']
                chk('reads/label-slice-term-read-its-periods', ok_, {'name': nm, 'from': lo, 'to': hi, 't': t})
                chk10('generated-code/label-slice-term-addresses-its-periods', ok_, {'name': nm, 'from': lo, 'to': hi, 't': t})
        for nm, p_ in lab_lhs.items():
            ok_ = (nm, p_) in seen['w']
            chk('writes/labelled-left-hand-side-assigns-its-period', ok_, {'name': nm, 'position': p_, 't': t})
            chk10('generated-code/labelled-left-hand-side-addresses-its-period', ok_, {'name': nm, 'position': p_, 't': t})

    for ev in sink:
        if ev[0] == '@':
            if ev[1] == 'begin':
                cur = (ev[2], ev[3])
                seen = {'r': set(), 's': set(), 'w': set(), 'raised': False} if ev[2] == 'eval' else None
            else:
                if cur is not None and cur[0] == 'eval':
                    if len(ev) > 4 and ev[4]:
                        seen['raised'] = True
                    close_block(cur[1])
                cur, seen = None, None
            continue
        name, kind, idx = ev
        if cur is None or cur[0] != 'eval':
            continue
        t = cur[1]
        tn = _norm(t, n)
        if not (lags <= tn <= n - 1 - leads):
            continue
        if not isinstance(idx, (int, np.integer)):
            # a label slice term reads a block of periods in one go
            m_ = __import__('re').fullmatch(r'slice\((-?\d+), (-?\d+), (None|1)\)', str(idx))
            ok_ = kind == 'r' and m_ is not None and (int(m_.group(1)), int(m_.group(2)) - 1) in lab_slices.get(name, ())
            if ok_:
                seen['s'].add((name, int(m_.group(1)), int(m_.group(2)) - 1))
            chk('reads/non-integer-index', ok_, {'name': name, 'index': str(idx)})
            continue
        idx = int(idx)
        if kind == 'w':
            if name in lab_lhs:
                seen['w'].add((name, _norm(idx, n)))
                chk('writes/labelled-left-hand-side-assigns-its-period', _norm(idx, n) == lab_lhs[name], {'name': name, 'index': idx, 'want': lab_lhs[name], 't': t})
                chk10('generated-code/labelled-left-hand-side-addresses-its-period', _norm(idx, n) == lab_lhs[name], {'name': name, 'index': idx, 'want': lab_lhs[name], 't': t})
                continue
            chk('writes/only-endogenous-at-t', name in endo and idx == t, {'name': name, 'index': idx, 't': t})
            continue
        p = _norm(idx, n)
        off = idx - t
        if p in lab_reads.get(name, ()) and 0 <= idx < n:
            seen['r'].add((name, p))
            if off not in reads.get(name, ()):
                continue  # (the labelled term's own read: at its period, wherever t is)
        chk('reads/inside-span', 0 <= p < n and (-n <= idx < n), {'name': name, 'index': idx, 't': t, 'n': n})
        chk('reads/no-wrap-round', (t >= 0) == (idx >= 0), {'name': name, 'index': idx, 't': t, 'n': n})
        chk('reads/at-written-offset', off in reads.get(name, ()), {'name': name, 'offset': off, 'written': sorted(reads.get(name, ())), 't': t})
        if off == -lags and lags:
            maxlag_hit = True
        if off == leads and leads:
            maxlead_hit = True
    if maxlag_hit:
        P('read-at-maximum-lag')
    if maxlead_hit:
        P('read-at-maximum-lead')


def execute(schedule, ctx):
    fsic = import_fsic()
    spec = schedule['spec']
    try:
        m, span, endo, check, exo = S.build(fsic, spec, ctx)
    except S.BuildFailed:
        ctx.log('build-failed')
        return
    n = len(span)
    cls = type(m)
    # the script generator's own account is the ground truth: the left-hand sides it wrote are the endogenous variables
    # (whatever the class under test lists), every other name it used must never change
    if set(endo) != set(spec['endo']):
        ctx.log('endogenous-lists-differ', sorted(endo), sorted(spec['endo']))
        ctx.probe('class-lists-other-endogenous-variables-than-the-script-assigns')
    endo = [x for x in spec['endo']]
    lags, leads = spec['lags'], spec['leads']
    if (cls.LAGS, cls.LEADS) != (lags, leads):
        # the workload generator's own count of lags/leads is the ground truth for feasibility
        ctx.log('lags-leads-differ', cls.LAGS, cls.LEADS, lags, leads)
    names = [x for x in m.__dict__['index'] if x not in ('status', 'iterations')]
    nonendo = [x for x in names if x not in endo]
    chk = lambda sig, ok, detail=None: ctx.check('C04', sig, ok, detail)  # noqa: E731
    ctl = probes.get_ctl(m)

    callers = list(ctl.caller_arrays)
    if callers:
        ctx.probe('constructed-through-keywords:' + spec.get('init_via', 'dict'))
    sp_now = dict(spec['span'])
    for step, op in enumerate(schedule['ops']):
        ctx.step = step
        if op['op'] == 'widen_margins':
            nl_, nd_ = lags + op['dl'], leads + op['dd']
            if (op['dl'] or op['dd']) and nl_ + nd_ + 1 <= n:
                m.lags, m.leads = nl_, nd_
                lags, leads = nl_, nd_
                ctx.probe('history:instance-lags-leads-raised')
            ctx.log(step, 'widen_margins', lags, leads)
            ctx.outcome('widen_margins', 'ok')
            continue
        if op['op'] == 'reindex' and op['n'] < lags + leads + 1:
            continue  # (margins raised since the schedule was drawn: the new span could not hold one solvable period)
        if op['op'] == 'reindex':
            sp_now = dict(sp_now, origin=sp_now.get('origin', 0) + op['shift'], n=op['n'])
            new_span = spans.make_span(sp_now)
            m = m.reindex(new_span, fill_value=1.5)
            span = m.__dict__['span']
            n = len(span)
            ctl = probes.get_ctl(m)
            ctx.probe('history:reindex')
            ctx.log(step, 'reindex', n)
            ctx.outcome('reindex', 'ok')
            continue
        if op['op'] == 'assign_shared':
            others_ = [x for x in names if x not in endo]
            if endo and others_:
                a_ = np.arange(n, dtype=float) * 0.25 + 1.0 + op['k']
                e_, o_ = endo[op['k'] % len(endo)], others_[op['k'] % len(others_)]
                for nm_ in (e_, o_):
                    if op['via'] == 'item':
                        m[nm_] = a_
                    elif op['via'] == 'replace_values':
                        m.replace_values(**{nm_: a_})
                    else:
                        setattr(m, nm_, a_)
                callers.append((o_, a_, a_.copy()))
                ctx.probe('one-array-assigned-to-two-variables')
            ctx.log(step, 'assign_shared')
            ctx.outcome('assign_shared', 'ok')
            continue
        if op['op'] == 'grow_check':
            if nonendo:
                nm_ = nonendo[op['k'] % len(nonendo)]
                if nm_ not in m.__dict__['check']:
                    m.__dict__['check'].append(nm_)
                    ctx.probe('history:check-list-grown')
            ctx.log(step, 'grow_check')
            ctx.outcome('grow_check', 'ok')
            continue
        if op['op'] == 'poke':
            if op['name'] in names and 0 <= op['pos'] < n:
                if op.get('reassign'):
                    vals_ = m.__dict__['_' + op['name']].tolist()
                    vals_[op['pos']] = probes.fval(op['v'])
                    m[op['name']] = vals_
                    ctx.probe('history:series-reassigned-from-a-list')
                else:
                    m.__dict__['_' + op['name']][op['pos']] = probes.fval(op['v'])
                ctx.fault('data-corruption')
            ctx.log(step, 'poke', op['name'], op['pos'], op['v'])
            ctx.outcome('poke', 'ok')
            continue
        opts = op['opts']
        if op['op'] in ('solve_t', 'solve_period'):
            op = dict(op, t=max(-n, min(n - 1, op['t'])))
        else:
            op = dict(op, start=None if op['start'] is None else min(op['start'], n - 1), end=None if op['end'] is None else min(op['end'], n - 1))
        snap = ref_solver.snapshot(m)
        ctl.arm({})
        sink = []
        ctl.sink = sink
        undo = probes.install_recorders(m, names, sink)
        via = bool(op.get('via_linker'))
        target = fsic.BaseLinker({'A': m}) if via else m
        if via:
            ctx.probe('solved-through-a-wrapping-linker:' + op['op'])

        def the_call():
            if via:
                kw_ = S.solver_kwargs(opts)
                if op['op'] == 'solve_t':
                    return target.solve_t(op['t'], **kw_)
                if op['op'] == 'solve_period':
                    return target.solve_period(spans.label_forms(sp_now, span, _norm(op['t'], n), op.get('form', 0)), **kw_)
                return target.solve(start=None if op['start'] is None else span[op['start']], end=None if op['end'] is None else span[op['end']], **kw_)
            if op['op'] == 'solve_t':
                return m.solve_t(op['t'], **S.solver_kwargs(opts))
            if op['op'] == 'solve_period':
                return m.solve_period(spans.label_forms(sp_now, span, _norm(op['t'], n), op.get('form', 0)), **S.solver_kwargs(opts))
            a = None if op['start'] is None else span[op['start']]
            b = None if op['end'] is None else span[op['end']]
            return m.solve(start=a, end=b, **S.solver_kwargs(opts))

        intr = op.get('interrupt')
        lb = probes.LineBudget([REPO + '/fsic'], limit=intr['line'], mode='interrupt') if intr else None
        try:
            try:
                v = lb.run(the_call) if lb else the_call()
                out = {'kind': 'return', 'value': v}
            except probes.SimInterrupt as e:
                # an asynchronous interruption (Ctrl-C, MemoryError) at an arbitrary line of the library: whatever was
                # under way, the frame conditions below still hold for what is left behind
                out = {'kind': 'raise', 'exc': e, 'interrupted': True}
            except Exception as e:
                out = {'kind': 'raise', 'exc': e}
        finally:
            undo()
            ctl.sink = None
        interrupted = bool(out.get('interrupted'))
        if interrupted:
            from .. import kernel as _k

            _k.pin_globals(getattr(ctx, 'np_err', 'default'))  # (a `with catch_warnings` block may have been cut short)
            ctx.fault('interrupt-line')
            if lb.where:
                ctx.probe(f'interrupt-at:{lb.where[0]}:{lb.where[1]}')
        post = ref_solver.snapshot(m)
        cls_out = 'return' if out['kind'] == 'return' else type(out['exc']).__name__
        S.count_faults(ctx, ctl.log, opts)
        ctx.count('passes', sum(1 for r in ctl.log if r['hook'] == 'eval'))
        ctx.count('steps', len(ctl.log))
        ctx.count('array-accesses-recorded', len(sink))

        # ---- which periods was this call asked to solve?
        if op['op'] in ('solve_t', 'solve_period'):
            tn = _norm(op['t'], n)
            positions = [tn]
            single = True
        else:
            ps = lags if op['start'] is None else op['start']
            pe = n - 1 - leads if op['end'] is None else op['end']
            positions = list(range(ps, pe + 1))
            single = False
        infeasible = [p for p in positions if not (lags <= p <= n - 1 - leads)]
        if op['op'] == 'solve_t' and op['t'] < 0:
            ctx.probe('negative-spelling')
        changed = ref_solver.diff_cells(snap, post)

        # ---- frame: exogenous variables, parameters and errors never change, anywhere
        bad = [c for c in changed if c[0] in nonendo]
        chk('frame/non-endogenous-changed', not bad, {'changed': bad[:8], 'op': op['op'], 'opts': opts})
        # ---- frame: only cells of the requested periods may change
        lhs_cells = {(nm_, p_) for nm_, p_ in label_positions(spec, span)[2].items()}  # (what a labelled left-hand side assigns)
        bad = [c for c in changed if c[1] not in positions and tuple(c) not in lhs_cells]
        chk('frame/other-period-changed', not bad, {'changed': bad[:8], 'positions': positions, 'op': op['op'], 'opts': opts})
        if out['kind'] == 'raise' and len(positions) > 1 and not via:  # (a linker does not call the submodel's own hooks: the seam log cannot say how far it got)
            # the run stopped part-way: periods after the one being solved (or about to be solved) must be as they were
            reached = max([r['tn'] for r in ctl.log] + [positions[0] - 1]) + 1
            later = [c for c in changed if c[1] > reached and tuple(c) not in lhs_cells]
            chk('frame/later-period-changed-after-failure', not later, {'changed': later[:8], 'stopped-at-or-before': reached, 'positions': positions})
        # ---- up-front rejections change nothing at all
        rejected = False
        if via:
            # (the linker's own argument checks and numerical policies are C08's business; here the frame, the reads and
            # the refusal of a period the model cannot be solved for - which, being refused up front, changes nothing)
            if single and infeasible and out['kind'] == 'raise' and not interrupted:
                chk('reject/nothing-changes', not changed, {'changed': changed[:8], 'why': 'infeasible period refused through the wrapping linker'})
        elif opts['min_iter'] > opts['max_iter']:
            rejected = True
            ctx.probe('rejected:min_iter>max_iter')
            chk('reject/min_iter>max_iter-raises', out['kind'] == 'raise', {'got': cls_out})
            chk('reject/nothing-changes', not changed, {'changed': changed[:8], 'why': 'min_iter>max_iter'})
        elif single and opts['offset'] and not (0 <= tn + opts['offset'] < n):
            rejected = True
            ctx.probe('rejected:offset-out-of-span')
            chk('reject/offset-raises', out['kind'] == 'raise', {'got': cls_out})
            chk('reject/nothing-changes', not changed, {'changed': changed[:8], 'why': 'offset out of span'})
        elif single and not infeasible and opts['errors'] == 'raise':
            start = {nm: a.copy() for nm, a in snap.items()}
            if opts['offset']:
                for nm in endo:
                    start[nm][tn] = snap[nm][tn + opts['offset']]
            if any(not np.isfinite(start[nm][tn]) for nm in m.__dict__['check']):
                rejected = True
                ctx.probe('rejected:preexisting-nonfinite' + ('+offset' if opts['offset'] else ''))
                chk('reject/preexisting-raises', cls_out == 'SolutionError' or interrupted, {'got': cls_out})
                allowed = {(nm, tn) for nm in endo} if opts['offset'] else set()
                bad = [c for c in changed if c not in allowed]
                chk('reject/nothing-changes', not bad, {'changed': bad[:8], 'why': 'pre-existing non-finite'})
                chk('reject/no-pass', not ctl.log, {'log': len(ctl.log)})
        # ---- infeasible request: must be rejected, not served from the other end of the span
        if infeasible and not rejected:
            side = 'lag-side' if infeasible[0] < lags else 'lead-side'
            spelled = 'negative-t' if (op['op'] == 'solve_t' and op['t'] < 0) else 'positive-t'
            ctx.probe(f'infeasible:{side}:{spelled}:{op["op"]}')
            chk(f'infeasible-period-served/{side}', out['kind'] == 'raise', {'op': op['op'], 't': op.get('t'), 'start': op.get('start'), 'end': op.get('end'), 'n': n, 'lags': lags, 'leads': leads, 'status': [str(x) for x in post['status'].tolist()]})
        elif not rejected and positions:
            if positions[0] == lags:
                ctx.probe('first-period-of-default-range')
            if positions[-1] == n - 1 - leads:
                ctx.probe('last-period-of-default-range')
        # ---- arrays the caller passed to the constructor are the caller's: a solve must not write through to them
        for nm_, arr_, pristine_ in callers:
            if not bool(np.array_equal(arr_, pristine_, equal_nan=True)):
                # only data passed in for variables that no equation assigns is covered by this property
                if nm_ in nonendo:
                    chk('frame/callers-array-changed', False, {'passed-for': nm_})
                arr_[:] = pristine_
        # ---- reads and writes observed through the recording arrays
        _judge_reads(sink, spec, n, lags, leads, endo, chk, ctx.probe, span, lambda sig, ok, detail=None: ctx.check('C10', sig, ok, detail))
        if any((spec.get('label_terms') or {}).values()):
            ctx.probe('script-with-labelled-terms')
            # every label the script names is in the span: the generated code's own label access must find each one (a
            # lookup failure - bare, or wrapped in the solver's SolutionError - says the code asked for another label)
            chain, e_ = [], out.get('exc') if out['kind'] == 'raise' else None
            while e_ is not None and len(chain) < 6:
                chain.append(e_)
                e_ = e_.__cause__ or e_.__context__
            lost = [type(x).__name__ + ': ' + str(x)[:80] for x in chain if isinstance(x, KeyError) and not (infeasible or rejected)]
            if not interrupted:
                ctx.check('C10', 'generated-code/label-in-the-span-not-found', not lost, {'chain': lost, 'terms': spec['label_terms'], 'op': op['op']})

        ctx.log(step, op['op'], op.get('t'), op.get('start'), op.get('end'), cls_out, [str(x) for x in post['status'].tolist()], post['iterations'].tolist(), len(sink))
        ctx.outcome(op['op'], f"{cls_out}:{'infeasible' if infeasible else 'feasible'}:{'rej' if rejected else ''}")
        ctx.state([op['op'], cls_out, bool(infeasible), rejected, [str(x) for x in post['status'].tolist()]])
