"""Workload registry. Each workload module exposes `generate(rng, idx, tier)` and `execute(schedule, ctx)`."""
import importlib

_NAMES = {
    'solver': 'solver',
    'solver_faults': 'solver',
    'solver_parser': 'solver',
    'solver_lattice': 'solver',
    'solver_seq': 'solver',
    'solver_labels': 'solver',
    'multi': 'multi',
    'frame': 'frame',
    'frame_labels': 'frame',
    'tracer': 'tracer',
    'container': 'container',
    'copies': 'container',
    'reindex': 'container',
    'labels': 'container',
    'pairs': 'container',
    'labels_sys': 'container',
    'reindex_sys': 'container',
    'alias': 'alias',
    'linker': 'linker',
}


class _Bound:
    """A workload module bound to one of its named variants."""

    def __init__(self, mod, variant):
        self.mod = mod
        self.variant = variant
        self.shrink_lists = getattr(mod, 'shrink_lists', ['ops'])
        self.shrink_protect = getattr(mod, 'shrink_protect', 0)
        if hasattr(mod, 'simplify'):
            self.simplify = mod.simplify

    def generate(self, rng, idx, tier):
        s = self.mod.generate(rng, idx, tier, self.variant)
        s['workload'] = self.variant
        return s

    def execute(self, schedule, ctx):
        return self.mod.execute(schedule, ctx)


def get(name):
    mod = importlib.import_module('.' + _NAMES[name], __name__)
    return _Bound(mod, name)
