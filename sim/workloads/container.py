"""Container histories (C09, C10, C11, C12): seeded sequences of public operations on VectorContainer / model / linker
instances and their copies, siblings and reindexed results, against the R-container reference and the observation
function. Variants differ only in operation weights: 'container', 'labels', 'copies', 'reindex'.
"""
import copy as _copy

import numpy as np

from .. import import_fsic, obs as O, probes, ref_container as RC, scripts, spans
from ..kernel import canon
from . import solver as S

MAXP = 4
RESERVED = ['index', 'size']  # legal variable names that collide with an attribute / a property of the container
LINKER_SPANS = ['range', 'list_int', 'list_str', 'list_mixed', 'list_numstr', 'list_date']


# ----------------------------------------------------------------------------
# generation


def _vspec(rng, g, kind=None, elem=None):
    g['base'] += 7
    base = g['base']
    if elem is None:
        elem = rng.choice(['float', 'float', 'int', 'bool', 'str'])
    k = kind or rng.choice(['scalar', 'scalar', 'seq', 'seq', 'seq', 'nested', 'nd'])
    if k == 'scalar':
        e = elem if rng.random() < 0.85 else rng.choice(['none', 'nan', 'longstr', 'str', 'float'])
        return {'k': 'scalar', 'e': e, 'base': base}
    if k == 'seq':
        ln = rng.choice(['n', 'n', 'n', 'n', 'n+1', 'n-1', 1, 0])
        c = rng.choice(['list', 'list', 'tuple', 'range', 'ndarray', 'ndarray', 'ndview', 'readonly', 'series'])
        e = elem if rng.random() < 0.85 else rng.choice(['none', 'nan', 'longstr', 'str', 'float'])
        if rng.random() < 0.08:
            # the caller's data source fails while it is being read (or, as a control, works)
            vs_ = {'k': 'seq', 'c': 'faulty-' + rng.choice(['getitem', 'getitem', 'seq', 'seq', 'array', 'len']), 'len': rng.choice(['n', 'n', 'n', 1]), 'e': elem, 'base': base, 'at': rng.choice([None, 0, 1, 2, 5, -1])}
            if rng.random() < 0.4:
                # a data source backed by the very object it is being assigned to: it reads from it while it is being read
                vs_['cb'] = rng.choice(['copy', 'values', 'frame', 'read', 'read', 'eval', 'reindex', 'w_scalar', 'w_scalar', 'w_cell', 'w_cell', 'w_add', 'w_add', 'w_same', 'w_same'])
                if rng.random() < 0.6:
                    vs_['at'] = None
            return vs_
        return {'k': 'seq', 'c': c, 'len': ln, 'e': e, 'base': base}
    if k == 'nested':
        return {'k': 'nested', 'rows': rng.choice(['n', 'n', 'n', 'n-1', 1]), 'cols': rng.choice([1, 2, 2]), 'e': elem if elem in ('float', 'int') else 'float', 'base': base}
    return {'k': 'nd', 'shape': rng.choice(['()', '(1,n)', '(n,1)', '(n,2)', '(2,n)', '(1,)', '(1,1)']), 'e': elem if elem in ('float', 'int', 'bool') else 'float', 'base': base}


def _good_vspec(rng, g, elem, whole=True):
    g['base'] += 7
    if not whole or rng.random() < 0.4:
        return {'k': 'scalar', 'e': elem, 'base': g['base']}
    return {'k': 'seq', 'c': rng.choice(['list', 'tuple', 'ndarray', 'ndview', 'readonly', 'series'] + (['range'] if elem == 'int' else [])), 'len': 'n', 'e': elem, 'base': g['base']}


def gen_family(rng, variant):
    if variant == 'copies':
        return rng.choice(['vc', 'scripted', 'parser', 'linker', 'linker', 'alias', 'tracer', 'alias+tracer'])
    if variant == 'reindex':
        return rng.choice(['vc', 'vc', 'vc', 'scripted', 'scripted', 'parser', 'parser', 'pandasmixin', 'pandasmixin', 'pandasmixin', 'tracer', 'alias+tracer', 'alias', 'tracer+pandasmixin', 'pandasmixin+tracer', 'alias+pandasmixin', 'pandasmixin+tracer+alias'])
    if variant == 'labels':
        return rng.choice(['vc', 'vc', 'vc', 'scripted', 'parser', 'linker', 'alias', 'alias'])
    return rng.choice(['vc', 'vc', 'vc', 'vc', 'scripted', 'scripted', 'parser', 'parser', 'linker', 'linker', 'tracer', 'pandasmixin', 'pandasmixin+tracer', 'alias+tracer'])


def mixed_family(fam):
    """A scripted model class under a stack of extension mixins, named in MRO order ('tracer+pandasmixin', ...)."""
    return fam == 'scripted' or set(fam.split('+')) <= {'alias', 'tracer', 'pandasmixin'}


def op_templates():
    """Every (operation kind x operand class) the alphabet knows, as schedule records with '?' placeholders."""
    T = []
    vs = []
    for e in ('float', 'int', 'bool', 'str', 'none', 'nan', 'longstr'):
        vs.append({'k': 'scalar', 'e': e})
    for c in ('list', 'tuple', 'range', 'ndarray', 'ndview', 'readonly', 'series'):
        for ln in ('n', 'n+1', 'n-1', 1, 0):
            vs.append({'k': 'seq', 'c': c, 'len': ln, 'e': '?'})
    for rows in ('n', 'n-1', 1):
        for cols in (1, 2):
            vs.append({'k': 'nested', 'rows': rows, 'cols': cols, 'e': 'float'})
    for shp in ('()', '(1,n)', '(n,1)', '(n,2)', '(2,n)', '(1,)', '(1,1)'):
        vs.append({'k': 'nd', 'shape': shp, 'e': 'float'})
    for kind in ('setattr', 'setitem'):
        for v in vs:
            T.append({'op': kind, 'name': '?', 'value': dict(v)})
        T.append({'op': kind, 'name': '?unknown', 'value': {'k': 'scalar', 'e': 'float'}})
    for pos in (0, -1, 'absent'):
        T.append({'op': 'setitem_label', 'name': '?', 'pos': pos, 'form': 0, 'value': {'k': 'scalar', 'e': '?'}})
    T.append({'op': 'setitem_label', 'name': '?', 'pos': 0, 'form': 1, 'value': {'k': 'seq', 'c': 'list', 'len': 'n', 'e': '?'}})
    for a, b, st in ((None, None, None), (0, -1, None), (1, 0, None), (0, 0, None), (None, -1, 2), (0, None, 3), ('absent', None, None), (None, 'absent', None)):
        for v in ({'k': 'scalar', 'e': '?'}, {'k': 'seq', 'c': 'list', 'len': 'slice', 'e': '?'}, {'k': 'seq', 'c': 'ndarray', 'len': 'n+1', 'e': '?'}):
            T.append({'op': 'setitem_slice', 'name': '?', 'a': a, 'b': b, 'step': st, 'fa': 0, 'fb': 0, 'value': dict(v)})
    T.append({'op': 'set_pos', 'name': '?', 'pos': 0, 'value': {'k': 'scalar', 'e': '?'}})
    T.append({'op': 'set_pos', 'name': '?', 'pos': -1, 'value': {'k': 'scalar', 'e': 'longstr'}})
    T.append({'op': 'replace_values', 'items': [['?', {'k': 'scalar', 'e': '?'}], ['?', {'k': 'seq', 'c': 'list', 'len': 'n', 'e': '?'}]]})
    T.append({'op': 'replace_values', 'items': [['?', {'k': 'scalar', 'e': '?'}], ['?', {'k': 'seq', 'c': 'list', 'len': 'n+1', 'e': '?'}]]})
    T.append({'op': 'replace_values', 'items': [['?', {'k': 'scalar', 'e': '?'}], ['?unknown', {'k': 'scalar', 'e': 'float'}]]})
    for shp in ('ok', 'rows+1', 'cols+1', 'flat', 'transposed'):
        T.append({'op': 'set_values', 'value': {'k': 'matrix', 'shape': shp}})
    for e in ('float', 'int', 'bool'):
        T.append({'op': 'set_values', 'value': {'k': 'scalar', 'e': e}})
    for v in ({'k': 'scalar', 'e': 'float'}, {'k': 'scalar', 'e': 'str'}, {'k': 'seq', 'c': 'list', 'len': 'n', 'e': 'int'}, {'k': 'seq', 'c': 'ndarray', 'len': 'n', 'e': 'bool'}, {'k': 'seq', 'c': 'list', 'len': 'n+1', 'e': 'float'}, {'k': 'seq', 'c': 'tuple', 'len': 1, 'e': 'float'}, {'k': 'nested', 'rows': 'n', 'cols': 2, 'e': 'float'}, {'k': 'nested', 'rows': 'n', 'cols': 1, 'e': 'float'}, {'k': 'nd', 'shape': '(n,2)', 'e': 'float'}, {'k': 'scalar', 'e': 'none'}):
        for dt in (None, 'float', 'int'):
            T.append({'op': 'add_variable', 'name': '?new', 'value': dict(v), 'dtype': dt})
    T.append({'op': 'add_variable', 'name': '?dup', 'value': {'k': 'scalar', 'e': 'float'}, 'dtype': None})
    T.append({'op': 'add_attribute', 'name': 'note0', 'v': 1})
    T.append({'op': 'add_attribute', 'name': '?dupvar', 'v': 1})
    for nm in ('zzz0', '?nearmiss', 'eval', 'copy', 'NAMES'):
        T.append({'op': 'set_attr_plain', 'name': nm, 'v': 3})
    T.append({'op': 'set_strict', 'v': True})
    T.append({'op': 'set_strict', 'v': False})
    for route in ('copy', 'copy.copy', 'deepcopy', 'sibling'):
        T.append({'op': 'spawn', 'route': route})
    T.append({'op': 'reindex', 'idx': '?shift', 'as': 'same', 'fill_value': None, 'fills': {}, 'strict': None})
    T.append({'op': 'get', 'name': '?', 'a': 0, 'b': None, 'step': 2, 'pos': 0, 'form': 0})
    return T


_TEMPLATES = None


def generate_pairs(rng, idx, tier):
    """Systematic stratum: the run index walks every ordered pair of operation templates (short histories exhaustively
    by operation x operand class); the PRNG only picks the targets, the span and the concrete numbers."""
    global _TEMPLATES
    if _TEMPLATES is None:
        _TEMPLATES = op_templates()
    T = _TEMPLATES
    n = rng.randint(1, 6)
    fam = rng.choice(['vc', 'vc', 'scripted'])
    spec = {'family': fam, 'span': {'type': rng.choice(spans.TYPES), 'n': n, 'origin': rng.choice([0, 1, 4])}, 'strict': bool(idx % 3 == 0)}
    g = {'base': 0}
    names = []
    ops = []
    if fam == 'vc':
        for i, dt in enumerate(('float', 'int', 'bool', 'str')):
            ops.append({'op': 'add_variable', 'obj': 0, 'name': f'V{i}', 'value': _good_vspec(rng, g, dt), 'dtype': dt})
            names.append((f'V{i}', dt))
    else:
        ms = S.gen_spec(rng, 'solver', tier)
        ms.pop('mixins', None)
        ms['lags'] = ms['leads'] = 0
        ms['span'] = spec['span']
        ms['init'] = {nm: [rng.choice(S.DYADS) for _ in range(n)] for nm in ms['endo'] + ms['exo']}
        spec['model'] = ms
        names = [(nm, 'float') for nm in ms['endo'] + ms['exo']]
    picks = [T[idx % len(T)], T[(idx // len(T)) % len(T)]]
    if tier == 'thorough' and rng.random() < 0.3:
        picks.append(rng.choice(T))
    for tpl in picks:
        import copy as _c

        op = _c.deepcopy(tpl)
        op['obj'] = 0
        nm, dt = rng.choice(names)

        def fill(v):
            g['base'] += 7
            v['base'] = g['base']
            if v.get('e') == '?':
                v['e'] = dt
            if v.get('len') == 'slice':
                a = op.get('a') if isinstance(op.get('a'), int) else None
                b = op.get('b') if isinstance(op.get('b'), int) else None
                a = None if a is None else a % n
                b = None if b is None else b % n
                v['len'] = len(RC.resolve_slice(list(range(n)), a, b, op.get('step')))

        if op.get('name') == '?':
            op['name'] = nm
        elif op.get('name') == '?dup' or op.get('name') == '?dupvar':
            op['name'] = nm
        elif op.get('name') == '?new':
            op['name'] = f'N{len(ops)}'
        elif op.get('name') == '?nearmiss':
            op['name'] = nm + 'x'
        for key in ('a', 'b', 'pos'):
            if isinstance(op.get(key), int) and op['op'] != 'set_pos':
                op[key] = op[key] % n
        if 'value' in op and isinstance(op['value'], dict):
            fill(op['value'])
        if 'items' in op:
            for it in op['items']:
                if it[0] == '?':
                    nm2, dt2 = rng.choice(names)
                    it[0] = nm2
                    dt = dt2
                fill(it[1])
        if op.get('idx') == '?shift':
            k = rng.choice([1, 2])
            op['idx'] = list(range(3 + k, 3 + k + n))
        ops.append(op)
    return {'spec': spec, 'ops': ops}


_LABEL_POINTS = None
LABEL_SYS_TYPES = ['range', 'range_step', 'list_int', 'list_str', 'list_mixed', 'list_numstr', 'list_date', 'np_int', 'np_str', 'pd_index_int', 'pd_index_str', 'pd_period_y', 'pd_period_q', 'pd_datetime']


def label_points():
    """Every (span type, length 1-5, start, stop, step, get/set, label form) over small spans: the exhaustive part of C10."""
    global _LABEL_POINTS
    if _LABEL_POINTS is None:
        pts = []
        for ty in LABEL_SYS_TYPES:
            for n in range(1, 6):
                ends = [None] + list(range(n)) + ['absent']
                for a in ends:
                    for b in ends:
                        for st in (None, 1, 2, 3):
                            for write in (False, True):
                                pts.append((ty, n, a, b, st, write))
        _LABEL_POINTS = pts
    return _LABEL_POINTS


def generate_labels_sys(rng, idx, tier):
    pts = label_points()
    point = idx % len(pts) if tier == 'thorough' else (idx * 7919) % len(pts)
    ty, n, a, b, st, write = pts[point]
    spec = {'family': 'vc', 'span': {'type': ty, 'n': n, 'origin': [0, 3, -2][point % 3], 'step': 2}, 'strict': False}
    ops = [{'op': 'add_variable', 'obj': 0, 'name': 'V0', 'value': {'k': 'seq', 'c': 'list', 'len': 'n', 'e': 'float', 'base': 10}, 'dtype': 'float'}]
    form = point % 2
    if write:
        ops.append({'op': 'setitem_slice', 'obj': 0, 'name': 'V0', 'a': a, 'b': b, 'step': st, 'fa': form, 'fb': 1 - form, 'value': {'k': 'scalar', 'e': 'float', 'base': 500}})
        for pos in range(n):
            ops.append({'op': 'setitem_label', 'obj': 0, 'name': 'V0', 'pos': pos, 'form': (pos + form) % 2, 'value': {'k': 'scalar', 'e': 'float', 'base': 700 + pos}})
    elif 'absent' in (a, b):
        ops.append({'op': 'setitem_slice', 'obj': 0, 'name': 'V0', 'a': a, 'b': b, 'step': st, 'fa': form, 'fb': 1 - form, 'value': {'k': 'scalar', 'e': 'float', 'base': 500}})
    else:
        ops.append({'op': 'get', 'obj': 0, 'name': 'V0', 'a': a, 'b': b, 'step': st, 'pos': point % n, 'form': form})
    return {'spec': spec, 'ops': ops, 'lattice_point': point}


_REINDEX_POINTS = None
REINDEX_SYS_TYPES = ['range', 'list_int', 'list_str', 'np_int', 'pd_index_int', 'pd_period_y']


def reindex_points():
    """Every (old span type, old length 1-3, ordered selection of 1-3 distinct labels from the old span plus one label on
    either side, spelling of the new span, fill variant, family): the exhaustive part of C12 at this bound."""
    global _REINDEX_POINTS
    if _REINDEX_POINTS is None:
        import itertools

        pts = []
        for ty in REINDEX_SYS_TYPES:
            for n in (1, 2, 3):
                cands = list(range(2, n + 4))  # universe positions: the old span is 3 .. n + 2
                for k in (1, 2, 3):
                    for sel in itertools.permutations(cands, k):
                        for how in ('same', 'list', 'np', 'pd'):
                            for fill in ('default', 'fill_value', 'per-variable'):
                                for fam in ('vc', 'scripted'):
                                    pts.append((ty, n, list(sel), how, fill, fam))
        _REINDEX_POINTS = pts
    return _REINDEX_POINTS


def generate_reindex_sys(rng, idx, tier):
    pts = reindex_points()
    point = idx % len(pts) if tier == 'thorough' else (idx * 7919) % len(pts)
    ty, n, sel, how, fill, fam = pts[point]
    spec = {'family': fam, 'span': {'type': ty, 'n': n, 'origin': [0, 4][point % 2], 'step': 2}, 'strict': False}
    ops = []
    if fam == 'vc':
        for i, dt in enumerate(('float', 'int', 'bool', 'str')):
            ops.append({'op': 'add_variable', 'obj': 0, 'name': f'V{i}', 'value': {'k': 'seq', 'c': 'list', 'len': 'n', 'e': dt, 'base': 10 * (i + 1)}, 'dtype': dt})
        names = ['V0', 'V1', 'V2', 'V3']
    else:
        ms = {'kind': 'scripted', 'endo': ['Y0'], 'exo': ['X0'], 'check': ['Y0'], 'lags': 0, 'leads': 0, 'span': spec['span'], 'init': {'Y0': [float(i + 1) for i in range(n)], 'X0': [float(10 + i) for i in range(n)]}}
        spec['model'] = ms
        names = ['Y0', 'X0']
        # bookkeeping that differs from the defaults, so that carried-over and filled periods can be told apart
        ops.append({'op': 'setitem', 'obj': 0, 'name': 'status', 'value': {'k': 'scalar', 'e': 'str', 'base': 5}})
        ops.append({'op': 'setitem', 'obj': 0, 'name': 'iterations', 'value': {'k': 'seq', 'c': 'list', 'len': 'n', 'e': 'int', 'base': 3}})
    fv, fills = None, {}
    if fill == 'fill_value':
        fv = [7, 2.5, True, 0][point % 4]
    elif fill == 'per-variable':
        fills = {names[point % len(names)]: [1, 0, 3.5, True][point % 4]}
        if fam == 'scripted' and point % 3 == 0:
            fills['iterations'] = 5
        if fam == 'scripted' and point % 3 == 1:
            fills['status'] = 'F'
    ops.append({'op': 'reindex', 'obj': 0, 'idx': sel, 'as': how, 'fill_value': fv, 'fills': fills, 'strict': None, 'mode': 'idx', 'k': 0})
    return {'spec': spec, 'ops': ops, 'lattice_point': point}


def generate(rng, idx, tier, variant):
    if variant == 'pairs':
        return generate_pairs(rng, idx, tier)
    if variant == 'reindex_sys':
        return generate_reindex_sys(rng, idx, tier)
    if variant == 'labels_sys':
        return generate_labels_sys(rng, idx, tier)
    fam = gen_family(rng, variant)
    one_sub = fam == 'linker' and rng.random() < 0.35  # a linker over a single submodel can sit on any span type
    n = rng.randint(1, 12 if tier == 'thorough' else 8)
    if rng.random() < 0.012 and variant in ('container', 'labels'):
        n = 300  # well past any small-number special case (e.g. CPython's cached small integers)
    stype = rng.choice(LINKER_SPANS if (fam == 'linker' and not one_sub) else spans.TYPES)
    spec = {'family': fam, 'span': {'type': stype, 'n': n, 'origin': rng.choice([0, 1, 3, 7, -1, -2, -3]), 'step': rng.choice([2, 2, 3])}, 'strict': rng.random() < 0.25}
    if stype in spans.ORDERABLE and variant in ('labels', 'container', 'copies') and rng.random() < 0.25:
        spec['span']['order'] = rng.choice(['desc', 'shuffle', 'swap', 'swap'])  # labels that are not in sorted order
    g = {'base': 0, 'names': {0: []}, 'np': 1}
    ELEMS = {'float': 'float', 'int': 'int', 'bool': 'bool', 'str': 'str'}
    if mixed_family(fam):
        ms = S.gen_spec(rng, 'solver', tier)
        ms['lags'] = min(ms['lags'], max(0, (n - 1) // 2))
        ms['leads'] = min(ms['leads'], max(0, n - 1 - ms['lags']))
        ms['span'] = spec['span']
        ms['init'] = {nm: [rng.choice(S.DYADS) for _ in range(n)] for nm in ms['endo'] + ms['exo']}
        spec['model'] = ms
        g['names'][0] = [(nm, 'float') for nm in ms['endo'] + ms['exo']]
        if 'tracer' in fam and rng.random() < 0.5:
            spec['trace_variables'] = list(ms['endo'] + ms['exo'])  # a class-level list of traced names
        if 'alias' in fam:
            names = ms['endo'] + ms['exo']
            al = {}
            for i in range(rng.randint(1, 3)):
                al[f'AL{i}'] = rng.choice(names + list(al))
            if stype in ('list_str', 'np_str', 'pd_index_str') and rng.random() < 0.7:
                # aliases spelt like period labels: a name and a label live in different namespaces
                o_ = spec['span']['origin']
                for i in rng.sample(range(n), min(n, 2)):
                    al[f'p{o_ + i}'] = rng.choice(names)
            spec['aliases'] = [[k_, v_] for k_, v_ in al.items()]
    elif fam == 'parser':
        prog = scripts.gen_program(rng, max_eq=3 if rng.random() < 0.97 else 12, max_lag=1, max_lead=1)  # (now and then a dozen equations)
        while prog['lags'] + prog['leads'] + 1 > n:
            n += 1
        spec['span']['n'] = n
        spec['model'] = {'kind': 'parser', 'script': prog['script'], 'names': prog['names'], 'endo': prog['endo'], 'declared': prog['declared'], 'init': scripts.gen_data(rng, prog, n), 'lags': prog['lags'], 'leads': prog['leads']}
        if rng.random() < 0.25:
            spec['model']['build'] = {'with_type_hints': False}
        g['names'][0] = [(nm, 'float') for nm in prog['names']]
    if fam in ('scripted', 'parser', 'alias', 'tracer', 'alias+tracer') and variant == 'copies' and rng.random() < 0.3:
        spec['dtype'] = rng.choice(['int', 'float32', 'bool'])  # the model's own dtype= argument
    if fam in ('scripted', 'linker') and variant in ('container', 'copies') and rng.random() < 0.2:
        spec['dtype'] = rng.choice(['int', 'float32', 'bool'])
    if fam == 'linker':
        subs = {}
        for sid in ['r9', 'r10', 'A'][: (1 if one_sub else rng.randint(0, 3))]:
            ms = S.gen_spec(rng, 'solver', tier)
            ms['lags'] = min(ms['lags'], max(0, (n - 1) // 2))
            ms['leads'] = min(ms['leads'], max(0, n - 1 - ms['lags']))
            ms['span'] = spec['span']
            ms['init'] = {nm: [rng.choice(S.DYADS) for _ in range(n)] for nm in ms['endo'] + ms['exo']}
            subs[sid] = ms
        spec['linker'] = {'subs': subs, 'endo': ['L0'], 'exo': ['LX']}
        g['names'][0] = [('L0', 'float'), ('LX', 'float')]
    if fam != 'vc' and rng.random() < 0.5:
        # a model's bookkeeping series are container variables like any other (in `index`, not in `names`)
        g['names'][0] = g['names'][0] + [('status', 'str'), ('iterations', 'int')]
    ops = []
    if fam == 'vc':
        for i in range(rng.randint(0, 4)):
            dt = rng.choice(['float', 'float', 'int', 'bool', 'str'])
            ops.append({'op': 'add_variable', 'obj': 0, 'name': f'V{i}', 'value': _good_vspec(rng, g, dt), 'dtype': rng.choice([None, dt])})
            g['names'][0].append((f'V{i}', dt))
        if rng.random() < 0.1:
            # an unsigned-integer series (its own dtype kind; integer-valued like any other)
            ops.append({'op': 'add_variable', 'obj': 0, 'name': 'U0', 'value': _good_vspec(rng, g, 'int'), 'dtype': 'uint'})
            g['names'][0].append(('U0', 'int'))
        if variant in ('reindex', 'labels', 'container') and rng.random() < 0.08:
            # a variable whose name is also the name of a container attribute / property: reachable by key only
            rn = rng.choice(RESERVED)
            ops.append({'op': 'add_variable', 'obj': 0, 'name': rn, 'value': _good_vspec(rng, g, 'float'), 'dtype': 'float'})
            g['names'][0].append((rn, 'float'))
    n_ops = rng.randint(5, 40 if tier == 'thorough' else 24)
    W = {
        'container': {'add_variable': 3, 'setattr': 5, 'setitem': 3, 'setitem_label': 2, 'setitem_slice': 2, 'set_pos': 2, 'replace_values': 2, 'set_values': 2, 'add_attribute': 1, 'set_attr_plain': 2, 'set_strict': 1, 'get': 2, 'spawn': 0.5, 'reindex': 0.3, 'eval_nested': 0.8},
        'labels': {'add_variable': 1, 'setattr': 1, 'setitem_label': 6, 'setitem_slice': 6, 'set_pos': 2, 'get': 4, 'setitem': 1, 'reindex': 1.5, 'reuse_key': 3, 'spawn': 0.5, 'add_attribute': 0.6},
        'copies': {'mutate_any': 5, 'assign_from': 1.5, 'add_variable': 2, 'setattr': 3, 'setitem_label': 1, 'setitem_slice': 1, 'set_pos': 3, 'replace_values': 1, 'set_values': 1, 'add_attribute': 1, 'set_attr_plain': 2, 'set_strict': 1, 'spawn': 5, 'mutate_list': 5, 'solve': 2, 'sub_poke': 2, 'reindex': 0.5, 'eval_name': 2.5, 'eval_nested': 1.5},
        'reindex': {'mutate_any': 2, 'mutate_list': 1.5, 'add_attribute': 2, 'add_variable': 3, 'setattr': 3, 'set_pos': 2, 'setitem_slice': 1, 'get': 1, 'reuse_key': 1, 'reindex': 6, 'solve': 2, 'set_strict': 1, 'spawn': 0.5, 'set_attr_plain': 1.5},
    }[variant]
    kinds, weights = zip(*sorted(W.items()))
    for _ in range(n_ops):
        kind = rng.choices(kinds, weights)[0]
        p = rng.randrange(g['np'])
        names = g['names'].get(p, [])
        pick = (lambda: rng.choice(names)) if names else None
        if kind == 'add_variable':
            r = rng.random()
            dt = rng.choice(['float', 'float', 'int', 'bool', 'str'])
            if r < 0.12 and names:
                ops.append({'op': 'add_variable', 'obj': p, 'name': pick()[0], 'value': _good_vspec(rng, g, dt), 'dtype': None})  # duplicate
            else:
                nm = f'N{len(ops)}'
                good = rng.random() < 0.6
                vs = _good_vspec(rng, g, dt) if good else _vspec(rng, g, elem=dt)
                if good and dt == 'int' and rng.random() < 0.3:
                    vs['e'] = 'bigint'  # integers that a detour through float64 would corrupt
                elif good and vs['k'] == 'scalar' and dt in ('float', 'int') and rng.random() < 0.3:
                    vs['e'] = dt + '01'  # 0 / 0.0 / False, 1 / 1.0 / True: equal values of different types (each its own dtype)
                ops.append({'op': 'add_variable', 'obj': p, 'name': nm, 'value': vs, 'dtype': rng.choice([None, None, dt])})
                if variant == 'copies' and rng.random() < 0.35:
                    ops[-1].update({'pool': rng.randrange(2), 'dtype': rng.choice([None, 'float']), 'value': {'k': 'seq', 'c': 'ndarray', 'len': 'n', 'e': 'float', 'base': 0}})
                    good = True
                    dt = 'float'
                if good:
                    names.append((nm, dt))
                    g['names'][p] = names
        elif kind == 'assign_from':
            # a whole series read from one object and assigned, as it is, to another (`dup.G = model.G`): the value is copied
            # in - the two objects do not end up holding one array
            if names and g['np'] >= 2:
                ops.append({'op': 'assign_from', 'obj': p, 'other': rng.randrange(g['np']), 'name': pick()[0], 'via': rng.choice(['attr', 'item', 'replace_values']), 'read': rng.choice(['attr', 'item'])})
        elif kind in ('setattr', 'setitem'):
            if rng.random() < 0.1 or not names:
                ops.append({'op': kind, 'obj': p, 'name': '?unknown', 'value': _vspec(rng, g)})
            else:
                nm, dt = pick()
                vs = _good_vspec(rng, g, dt) if rng.random() < 0.5 else _vspec(rng, g, elem=dt if rng.random() < 0.7 else None)
                if vs['k'] == 'seq' and vs['c'] in ('list', 'tuple') and vs['len'] == 'n' and dt in ('float', 'int', 'bool') and rng.random() < 0.12:
                    vs['tail'] = rng.choice(['bad', 'none'])
                ops.append({'op': kind, 'obj': p, 'name': nm, 'value': vs})
        elif kind == 'setitem_label':
            if not names:
                continue
            nm, dt = pick()
            pos = rng.randrange(n) if rng.random() < 0.88 else 'absent'
            vs = {'k': 'scalar', 'e': dt, 'base': g['base']} if rng.random() < 0.85 else _vspec(rng, g, elem=dt)
            g['base'] += 7
            r_ = rng.random()
            ops.append({'op': 'setitem_label', 'obj': p, 'name': nm if r_ < 0.92 else '?unknown' if r_ < 0.96 else rng.choice(['?index', '?names', '?span', '?check', '?_attributes']), 'pos': pos, 'form': rng.choice([0, 0, 1]), 'value': vs})
        elif kind == 'setitem_slice':
            if not names:
                continue
            nm, dt = pick()
            a = rng.choice([None, None] + list(range(n)) + (['absent'] if rng.random() < 0.3 else []))
            b = rng.choice([None, None] + list(range(n)) + (['absent'] if rng.random() < 0.3 else []))
            step = rng.choice([None, None, 1, 2, 3])
            r = rng.random()
            g['base'] += 7
            if r < 0.08 and isinstance(a, (int, type(None))) and isinstance(b, (int, type(None))) and dt == 'float':
                # a lazily read source of the right length that, while it is being read, writes (by label) another
                # period of the very variable the slice is being assigned to
                cnt = len(RC.resolve_slice(list(range(n)), a, b, step))
                vs = {'k': 'seq', 'c': 'faulty-' + rng.choice(['getitem', 'seq', 'array']), 'len': cnt, 'e': dt, 'base': g['base'], 'at': None, 'cb': rng.choice(['w_same', 'w_same', 'w_cell', 'read'])}
            elif r < 0.5:
                vs = {'k': 'scalar', 'e': dt, 'base': g['base']}
            elif r < 0.85 and isinstance(a, (int, type(None))) and isinstance(b, (int, type(None))):
                cnt = len(RC.resolve_slice(list(range(n)), a, b, step))
                vs = {'k': 'seq', 'c': rng.choice(['list', 'ndarray', 'tuple']), 'len': cnt, 'e': dt, 'base': g['base']}
            else:
                vs = _vspec(rng, g, elem=dt)
            ops.append({'op': 'setitem_slice', 'obj': p, 'name': nm, 'a': a, 'b': b, 'step': step, 'fa': rng.choice([0, 0, 1]), 'fb': rng.choice([0, 0, 1]), 'value': vs})
        elif kind == 'set_pos':
            if not names:
                continue
            nm, dt = pick()
            g['base'] += 7
            ops.append({'op': 'set_pos', 'obj': p, 'name': nm, 'pos': rng.randrange(-n, n), 'value': {'k': 'scalar', 'e': dt, 'base': g['base']}})
        elif kind == 'replace_values':
            if not names:
                continue
            items = []
            for nm, dt in rng.sample(names, min(len(names), rng.randint(1, 3))):
                items.append([nm, _good_vspec(rng, g, dt) if rng.random() < 0.75 else _vspec(rng, g, elem=dt)])
            if rng.random() < 0.1:
                items.insert(rng.randrange(len(items) + 1), ['?unknown', _vspec(rng, g)])
            ops.append({'op': 'replace_values', 'obj': p, 'items': items})
        elif kind == 'set_values':
            g['base'] += 7
            r = rng.random()
            if r < 0.45:
                ops.append({'op': 'set_values', 'obj': p, 'value': {'k': 'matrix', 'shape': 'ok', 'base': g['base'] if variant != 'copies' else 500}, 'pool': (rng.randrange(2) if variant == 'copies' and rng.random() < 0.6 else None)})
                if ops[-1]['pool'] is None and rng.random() < 0.15:
                    ops[-1]['value']['as'] = 'np.matrix'
            elif r < 0.65:
                ops.append({'op': 'set_values', 'obj': p, 'value': {'k': 'matrix', 'shape': rng.choice(['rows+1', 'cols+1', 'flat', 'transposed']), 'base': g['base']}})
            elif r < 0.72:
                # the right shape, contents that cannot be stored in (some of) the series: fails inside the replacement
                ops.append({'op': 'set_values', 'obj': p, 'value': {'k': 'matrix', 'shape': 'ok', 'content': rng.choice(['str', 'none']), 'base': g['base']}})
            else:
                ops.append({'op': 'set_values', 'obj': p, 'value': {'k': 'scalar', 'e': rng.choice(['float', 'int', 'bool', 'float', 'int', 'bool', 'longstr', 'none']), 'base': g['base']}})
        elif kind == 'add_attribute':
            nm_ = rng.choice(['note', 'meta', 'tag']) + str(rng.randrange(3)) if rng.random() < 0.7 else rng.choice(['model', 'models', 'sub', 'subs', 'submodel', 's', 'dels', 'n_submodels', 'submodels_note'])
            if variant == 'labels':
                # (label histories: only the attribute that makes a later copy / reindex fail part-way is of interest)
                ops.append({'op': 'add_attribute', 'obj': p, 'name': nm_, 'v': rng.randrange(100), 'shape': 'uncopyable'})
                continue
            ops.append({'op': 'add_attribute', 'obj': p, 'name': nm_, 'v': rng.randrange(100), 'shape': rng.choice(['int', 'int', 'list', 'dict', 'ndarray', 'tuple-of-list', 'tuple-of-ndarray', 'nested'] * 3 + ['uncopyable', 'backref', 'backref'])})
        elif kind == 'set_attr_plain':
            r = rng.random()
            if variant == 'reindex' and r < 0.6:
                nm = rng.choice(['lags', 'leads'])  # instance-level settings, to be carried over
            elif r < 0.4 and names:
                nm = pick()[0]
                nm = rng.choice([nm + 'x', nm.lower() + '_', nm[:-1] + 'Q' if len(nm) > 1 else nm + 'q'])  # near miss of a variable
            elif r < 0.48 and names:
                nm = '_' + pick()[0]  # the storage key of a variable: still not an attribute the user may create
            elif r < 0.53:
                nm = rng.choice(['engine', 'lags', 'leads'])  # attributes every model already has: updating them keeps working
            elif r < 0.63:
                nm = rng.choice(['eval', 'copy', 'reindex', 'add_variable', 'to_dataframe', 'replace_values', 'solve', 'solve_t_before', 'LAGS', 'NAMES', 'CODE', 'get_closest_match'])
            else:
                nm = rng.choice(['note', 'meta', 'tag', 'zzz']) + str(rng.randrange(3))
            ops.append({'op': 'set_attr_plain', 'obj': p, 'name': nm, 'v': rng.randrange(100)})
        elif kind == 'set_strict':
            ops.append({'op': 'set_strict', 'obj': p, 'v': rng.random() < 0.6})
        elif kind == 'eval_name':
            # eval() of an expression naming a variable that this party or only some *other* party owns; some evaluations fail
            pool_ = sorted({nm_ for lst in g['names'].values() for nm_, _dt in lst if nm_.isidentifier()})
            if pool_:
                ops.append({'op': 'eval_name', 'obj': p, 'name': rng.choice(pool_), 'fail': rng.random() < 0.4})
        elif kind == 'eval_nested':
            # a function named in an eval() expression calls back into the library (re-entrant use): another object's (or
            # this object's) eval(), the strict switch, add_variable
            pool_ = sorted({nm_ for lst in g['names'].values() for nm_, _dt in lst if nm_.isidentifier()})
            if pool_:
                ops.append({'op': 'eval_nested', 'obj': p, 'how': rng.choice(['other_eval', 'other_eval', 'self_eval', 'toggle_strict', 'toggle_strict', 'add_variable']), 'other': rng.randrange(MAXP), 'name': rng.choice(pool_), 'k': rng.randrange(1000)})
        elif kind == 'get':
            if not names:
                continue
            nm, dt = pick()
            ops.append({'op': 'get', 'obj': p, 'name': nm, 'a': rng.choice([None] + list(range(n))), 'b': rng.choice([None] + list(range(n))), 'step': rng.choice([None, 1, 2, 3]), 'pos': rng.randrange(n), 'form': rng.choice([0, 1])})
        elif kind == 'spawn':
            route = rng.choice(['copy', 'copy.copy', 'deepcopy', 'sibling'])
            ops.append({'op': 'spawn', 'obj': p, 'route': route})
            if g['np'] < MAXP:
                g['names'][g['np']] = list(names) if route != 'sibling' else [x for x in g['names'][0] if not x[0].startswith('N') and not x[0].startswith('V')]
                g['np'] += 1
        elif kind == 'mutate_list':
            ops.append({'op': 'mutate_list', 'obj': p, 'attr': rng.choice(['check', 'endogenous', 'names', 'aliases', 'preferred_names', 'trace_names', 'index', 'submodels']), 'action': rng.choice(['append', 'append', 'remove', 'insert']), 'k': rng.randrange(4)})
        elif kind == 'reuse_key':
            ops.append({'op': 'reuse_key', 'obj': p, 'k': rng.randrange(1000), 'write': rng.random() < 0.4})
        elif kind == 'mutate_any':
            ops.append({'op': 'mutate_any', 'obj': p, 'k': rng.randrange(1000)})
        elif kind == 'solve':
            opts = S.gen_opts(rng, False)
            opts['offset'] = 0
            opts['max_iter'] = min(opts['max_iter'], 300)
            if opts['min_iter'] > opts['max_iter']:
                opts['min_iter'] = 0
            opts['failures'] = 'ignore'
            ops.append({'op': 'solve', 'obj': p, 'opts': opts, 'trace': rng.random() < 0.6})
        elif kind == 'sub_poke':
            g['base'] += 7
            ops.append({'op': 'sub_poke', 'obj': p, 'sub': rng.choice(['r9', 'r10', 'A']), 'k': rng.randrange(4), 'pos': rng.randrange(n), 'v': float(g['base'])})
        elif kind == 'reindex':
            U = n + 6
            r = rng.random()
            if r < 0.2:
                k = rng.randint(1, 3)
                idxs = list(range(3 + k, 3 + k + n))  # shift
            elif r < 0.35:
                idxs = list(range(3 - rng.randint(1, 3), 3 + n))  # extend left
            elif r < 0.5:
                idxs = list(range(3, 3 + n + rng.randint(1, 3)))  # extend right
            elif r < 0.6:
                idxs = list(range(3 + rng.randint(0, 1), 3 + max(1, n - rng.randint(0, 2))))  # shrink
            elif r < 0.68:
                idxs = [0, 1, 2][: rng.randint(1, 3)]  # disjoint
            elif r < 0.82:
                idxs = list(range(2, 4 + n))
                rng.shuffle(idxs)  # permuted
            elif r < 0.92:
                idxs = [rng.randrange(2, 4 + n) for _ in range(rng.randint(1, n + 2))]  # repeated labels
            else:
                idxs = list(range(3, 3 + n))  # same
            fv = rng.choice([None, None, None, 0, 7, 2.5, True, 'q'])
            fills = {}
            if names and rng.random() < 0.4:
                for nm, dt in rng.sample(names, min(len(names), rng.randint(1, 2))):
                    fills[nm] = rng.choice([1, 0, 3.5, True, None])  # (None given for a variable: that variable's dtype default, whatever fill_value says)
            if rng.random() < 0.3:
                which = rng.choice(['status', 'iterations', 'both'])
                if which in ('status', 'both'):
                    fills['status'] = rng.choice(['X', '', 'F', 5])
                if which in ('iterations', 'both'):
                    fills['iterations'] = rng.choice([0, 5, 0, 'X', 2.5])
            if rng.random() < 0.2:
                fills['NOPE'] = 1
            if spec.get('aliases') and rng.random() < 0.3:
                # a fill keyword spelt as an alias: not a name the container's index knows, so rejected under strict
                # (and otherwise applied to nothing) - never accepted and then dropped
                fills[rng.choice(spec['aliases'])[0]] = rng.choice([1, 3.5])
            fill_cb = None
            if rng.random() < 0.15:
                # a fill value that is an object: converting it to a number calls back into the object being reindexed
                fill_cb = {'what': rng.choice(['nested_reindex', 'nested_reindex', 'add_variable', 'add_variable', 'copy']), 'k': rng.randrange(1000)}
            pd_args = None
            if 'pandasmixin' in spec['family'] and rng.random() < 0.3:
                # the pandas extension's own arguments (fill methods, fill values of another type): whatever they fill
                # in, every series keeps its length and its dtype
                pd_args = rng.choice([{'method': 'ffill'}, {'method': 'bfill'}, {'method': 'nearest'}, {'fill_value': 2.5}, {'fill_value': 0}, {'ffill_': '?'}, {'bfill_': '?'}, {'fills': 7.5}, {'method': 'ffill', 'limit': 1}])
            ops.append({'op': 'reindex', 'obj': p, 'pd_args': pd_args, 'fill_cb': fill_cb, 'idx': idxs, 'as': rng.choice(['same', 'same', 'list', 'np', 'pd']), 'fill_value': fv, 'fills': fills, 'strict': rng.choice([None, None, True, False]), 'mode': rng.choice(['idx'] * 8 + ['same-object', 'range-phase']), 'k': rng.randrange(3)})
            if g['np'] < MAXP:
                g['names'][g['np']] = list(names)
                g['np'] += 1
    return {'spec': spec, 'ops': ops}


# ----------------------------------------------------------------------------
# execution helpers


class Party:
    def __init__(self, obj, labels, span_spec, fam, universe=None):
        self.obj = obj
        self.labels = labels  # list of label objects
        self.span_spec = span_spec
        self.fam = fam
        self.ref = None  # {name: ndarray}
        self.order = None
        self.dtypes = {}
        self.plain = set()
        self.universe = universe
        self.unique = len(set(f'{type(a).__name__}:{a}' for a in labels)) == len(labels)
        self.sync()

    def sync(self):
        d = self.obj.__dict__
        self.order = list(d['index'])
        self.ref = {nm: np.array(d['_' + nm], copy=True) for nm in self.order}
        for nm in self.order:
            self.dtypes.setdefault(nm, d['_' + nm].dtype)

    @property
    def n(self):
        return len(self.labels)


def build_first(fsic, spec, ctx=None):
    fam = spec['family']
    span = spans.make_span(spec['span'])
    if fam == 'vc':
        return fsic.core.VectorContainer(span, strict=spec['strict']), span
    dtk = {} if not spec.get('dtype') else {'dtype': {'int': int, 'float32': np.float32, 'bool': bool}[spec['dtype']]}
    if fam == 'parser':
        cls = probes.build_parser_class(fsic, spec['model'], ctx)
        if cls is None:
            raise S.BuildFailed()
        m = cls(span, strict=spec['strict'], **dtk)
        for nm, vals in spec['model']['init'].items():
            if nm in m.__dict__['index']:
                m.__dict__['_' + nm][:] = vals
        return m, span
    if mixed_family(fam):
        from fsic.extensions import AliasMixin, PandasIndexFeaturesMixin, TracerMixin

        base = probes.make_scripted(fsic, spec['model'])
        bases = []
        attrs = {}
        for part in ([] if fam == 'scripted' else fam.split('+')):  # (MRO order as the family name spells it)
            if part == 'alias':
                bases.append(AliasMixin)
                attrs['ALIASES'] = dict(map(tuple, spec.get('aliases', [])))
            elif part == 'tracer':
                bases.append(TracerMixin)
                if spec.get('trace_variables'):
                    attrs['TRACE_VARIABLES'] = list(spec['trace_variables'])
            elif part == 'pandasmixin':
                bases.append(PandasIndexFeaturesMixin)
        cls = type('Mixed', tuple(bases) + (base,), attrs) if bases else base
        m = cls(span, strict=spec['strict'], **dtk)
        for nm, vals in spec['model']['init'].items():
            m.__dict__['_' + nm][:] = vals
        probes.attach_ctl(m)
        return m, span
    if fam == 'linker':
        subs = {}
        for sid, ms in spec['linker']['subs'].items():
            cls = probes.make_scripted(fsic, ms)
            subs[sid] = probes.new_scripted_instance(cls, spans.make_span(spec['span']), ms['init'])
        L = type('Linker', (fsic.BaseLinker,), {'ENDOGENOUS': ['L0'], 'EXOGENOUS': ['LX'], 'NAMES': ['L0', 'LX'], 'CHECK': ['L0']})
        if subs:
            return L(subs, **dtk), span
        return L(subs, span=span, **dtk), span
    raise ValueError(fam)


def label_at(party, pos, form):
    return spans.label_forms(party.span_spec, party.obj.__dict__['span'], pos, form) if party.span_spec else party.labels[pos]


def absent(party, variant=0):
    if party.span_spec:
        return spans.absent_label(party.span_spec, variant, party.obj.__dict__['span'])
    return 'nope-absent'


def invariants(party, ctx, when):
    """C09: every series 1-D, one element per period, creation dtype; values/size consistent."""
    d = party.obj.__dict__
    n = party.n
    ok = True
    for nm in d['index']:
        a = d.get('_' + nm)
        good = isinstance(a, np.ndarray) and a.ndim == 1 and a.shape == (n,)
        if not good:
            ok = False
            shape = list(a.shape) if isinstance(a, np.ndarray) else type(a).__name__
            ctx.check('C09', f'series-rank/{when}', False, {'name': nm, 'shape': shape, 'n': n})
            # repair the object so that the rest of the history stays meaningful (the violation is already recorded)
            prev = party.ref.get(nm)
            if prev is not None and prev.ndim == 1 and prev.shape == (n,):
                d['_' + nm] = prev.copy()
            else:
                d['_' + nm] = np.zeros(n, dtype=party.dtypes.get(nm, float))
            continue
        want = party.dtypes.get(nm)
        if want is not None and a.dtype != want:
            ok = False
            ctx.check('C09', f'series-dtype/{when}', False, {'name': nm, 'dtype': str(a.dtype), 'created-as': str(want)})
            try:
                d['_' + nm] = a.astype(want)
            except Exception:
                d['_' + nm] = np.zeros(n, dtype=want)
    if ok:
        ctx.check('C09', 'series-invariants', True)
    return ok


def values_size(party, ctx):
    x = party.obj
    d = x.__dict__
    n = party.n
    names = d['names'] if 'names' in d else d['index']
    try:
        vals = x.values
    except Exception as e:
        ctx.check('C09', 'values/readable', False, {'exc': type(e).__name__})
        return
    want = np.array([d['_' + nm] for nm in names])
    ctx.check('C09', 'values/is-stack-in-declaration-order', RC.arrays_equal(np.asarray(vals), want) or (vals.size == 0 and want.size == 0), {'shape': list(np.asarray(vals).shape), 'want': list(want.shape)})
    if names:
        ctx.check('C09', 'values/two-dimensional', np.asarray(vals).ndim == 2 and np.asarray(vals).shape == (len(names), n), {'shape': list(np.asarray(vals).shape)})
    if 'submodels' in d:
        sizes = x.sizes
        ctx.check('C09', 'size/linker-own-count', sizes[d['name']] == len(names) * n, {'sizes': canon(sizes)})
        ctx.check('C09', 'size/linker-total', x.size == sum(sizes.values()), None)
    else:
        ctx.check('C09', 'size/element-count', x.size == len(names) * n, {'size': x.size, 'want': len(names) * n})


def compare_ref(party, ctx, prop, sig, names=None):
    d = party.obj.__dict__
    ok = True
    if list(d['index']) != party.order:
        ctx.check(prop, sig + '/variable-order', False, {'got': list(d['index']), 'want': party.order})
        return False
    for nm in names or party.order:
        a = d.get('_' + nm)
        if not isinstance(a, np.ndarray) or not RC.arrays_equal(a, party.ref[nm]):
            ok = False
            ctx.check(prop, sig, False, {'name': nm, 'got': canon(a.tolist()) if isinstance(a, np.ndarray) else None, 'want': canon(party.ref[nm].tolist())})
            break
    if ok:
        ctx.check(prop, sig, True)
    return ok


def read_paths(party, nm, ctx, rng_positions):
    """C10: a value written through any path is read back unchanged through every other path."""
    x = party.obj
    want = party.ref[nm]
    try:
        a2 = x[nm]
        a1 = getattr(x, nm) if nm not in RESERVED else a2
    except Exception as e:
        ctx.check('C10', 'read/whole-series', False, {'exc': type(e).__name__})
        return
    ctx.check('C10', 'read/attribute-path', isinstance(a1, np.ndarray) and RC.arrays_equal(a1, want), {'name': nm})
    ctx.check('C10', 'read/name-key-path', isinstance(a2, np.ndarray) and RC.arrays_equal(a2, want), {'name': nm})
    for p, form in rng_positions:
        if not party.unique:
            break
        try:
            lab = label_at(party, p, form)
            v = x[nm, lab]
        except Exception as e:
            ctx.check('C10', f'read/label-path/span={party.span_spec["type"] if party.span_spec else "custom"}', False, {'exc': type(e).__name__, 'pos': p, 'form': form})
            continue
        ctx.check('C10', f'read/label-path/span={party.span_spec["type"] if party.span_spec else "custom"}', _scalar_eq(v, want[p]), {'pos': p, 'got': canon(v), 'want': canon(want[p])})
        ctx.check('C10', 'read/position-path', _scalar_eq(x[nm][p], want[p]), {'pos': p})


def _scalar_eq(a, b):
    try:
        if isinstance(a, np.ndarray):
            return False
        return bool(a == b) or (a != a and b != b)
    except Exception:
        return False


def others_unchanged(parties, target_i, before, class_before, ctx, op_kind, classes):
    """C11: no mutation of one party is visible on another, nor on the class."""
    for j, pj in enumerate(parties):
        if j == target_i:
            continue
        now = O.obs(pj.obj)
        if now != before[j]:
            ctx.check('C11', f'shared-state/{op_kind}/{_rel(parties, target_i, j)}', False, {'mutated-party': target_i, 'changed-party': j, 'paths': O.diff(before[j], now)[:5]})
            if target_i is not None and 'reindexed' in (parties[target_i].origin, pj.origin):
                # "the original object ... shares nothing with the result" of reindex()
                ctx.check('C12', 'result-shares-state-with-its-source/' + op_kind.split(':')[0], False, {'paths': O.diff(before[j], now)[:5]})
        else:
            ctx.check('C11', 'independent', True)
    for cname, cls in classes.items():
        now = O.obs_class(cls)
        if now != class_before[cname]:
            changed = [k for k in now if now[k] != class_before[cname][k]]
            ctx.check('C11', f'class-state-changed/{op_kind}/' + '+'.join(changed), False, {'class': cname, 'attrs': changed, 'now': {k: now[k] for k in changed}})
            class_before[cname] = now


def safe_others_unchanged(parties, target_i, before, class_before, ctx, op_kind, classes):
    """others_unchanged, but an observation that cannot even be taken (because shared state was corrupted) counts as changed."""
    try:
        others_unchanged(parties, target_i, before, class_before, ctx, op_kind, classes)
    except Exception as e:
        ctx.check('C11', f'shared-state/{op_kind}/observation-broken', False, {'exc': type(e).__name__})


def _generic(path):
    import re

    return re.sub(r'\[\d+\]', '[i]', path)


def reachable_mutables(x, depth=4):
    """Every mutable object reachable from x.__dict__ (lists, dicts, sets, arrays, traces, submodels), with its path."""
    out = []
    seen = set()

    def walk(o, path, dleft):
        if id(o) in seen or dleft < 0:
            return
        if isinstance(o, (list, dict, set)):
            seen.add(id(o))
            out.append((path, o))
            items = o.items() if isinstance(o, dict) else enumerate(o) if isinstance(o, list) else []
            for k, v in items:
                if isinstance(v, (list, dict, set, np.ndarray, tuple)) or hasattr(v, '__dict__'):
                    walk(v, f'{path}[{k}]' if isinstance(o, list) else f'{path}/{k}', dleft - 1)
            return
        if isinstance(o, np.ndarray):
            seen.add(id(o))
            if o.dtype.kind == 'O':
                for j, v in enumerate(o.ravel().tolist()):
                    walk(v, f'{path}[{j}]', dleft - 1)
            elif o.size:
                out.append((path, o))
            return
        if isinstance(o, tuple):
            # a tuple cannot change, the things in it can
            for k, v in enumerate(o):
                if isinstance(v, (list, dict, set, np.ndarray, tuple)) or hasattr(v, '__dict__'):
                    walk(v, f'{path}({k})', dleft - 1)
            return
        if isinstance(o, (str, int, float, bool, type(None), range, type, np.generic)):
            return
        if type(o).__module__.startswith('pandas'):
            return
        if hasattr(o, '__dict__') and type(o).__name__ != 'Ctl':
            seen.add(id(o))
            for k, v in list(o.__dict__.items()):
                if k == '_ctl':
                    continue
                walk(v, f'{path}/{k}', dleft - 1)

    for k, v in list(x.__dict__.items()):
        if k == '_ctl':
            continue
        walk(v, '/' + k, depth)
    out.sort(key=lambda pv: pv[0])
    return out


def mutate_in_place(o):
    """Mutate a reachable object in place; return the undo function (None if nothing sensible can be done)."""
    if isinstance(o, list):
        o.append('__m__')
        return lambda: o.pop()
    if isinstance(o, dict):
        o['__m__'] = 1
        return lambda: o.pop('__m__', None)
    if isinstance(o, set):
        o.add('__m__')
        return lambda: o.discard('__m__')
    if isinstance(o, np.ndarray) and o.size and o.flags['C_CONTIGUOUS'] and o.flags['WRITEABLE']:
        flat = o.reshape(-1)
        old = flat[0]
        try:
            if o.dtype.kind == 'f':
                flat[0] = 12345.25 if not (old == 12345.25) else 54321.5
            elif o.dtype.kind in 'iu':
                flat[0] = int(old) + 17
            elif o.dtype.kind == 'b':
                flat[0] = not bool(old)
            elif o.dtype.kind == 'U':
                flat[0] = 'Z' if old != 'Z' else 'Q'
            else:
                return None
        except Exception:
            return None

        def undo():
            flat[0] = old

        return undo
    return None


def _rel(parties, i, j):
    return f'{parties[i].origin}->{parties[j].origin}'


# ----------------------------------------------------------------------------
# execution


def execute(schedule, ctx):
    fsic = import_fsic()
    spec = schedule['spec']
    try:
        x0, span0 = build_first(fsic, spec, ctx)
    except S.BuildFailed:
        ctx.log('build-failed')
        return
    labels0 = spans.elements(span0)
    _st = spec['span'].get('step', 2) if spec['span']['type'] == 'range_step' else 1
    universe_spec = dict(spec['span'], n=spec['span']['n'] + 6, origin=spec['span'].get('origin', 0) - 3 * _st) if spec['span']['type'] not in ('list_mixed',) else None
    if spec.get('dtype') and 'names' in x0.__dict__:
        want_dt = np.dtype({'int': int, 'float32': np.float32, 'bool': bool}[spec['dtype']])
        wrong = [nm for nm in type(x0).NAMES if x0.__dict__['_' + nm].dtype != want_dt]
        ctx.probe('constructed-with-dtype:' + spec['dtype'])
        ctx.check('C09', 'construction/variables-have-the-dtype-asked-for', not wrong and x0.__dict__.get('dtype') is not None, {'wrong': wrong, 'dtype': spec['dtype'], 'family': spec['family']})
    P0 = Party(x0, labels0, spec['span'], spec['family'])
    P0.origin = 'original'
    parties = [P0]
    classes = {'party0': type(x0)}
    if 'submodels' in x0.__dict__:
        for sid, sm in x0.__dict__['submodels'].items():
            classes['sub' + str(sid)] = type(sm)
    class_before = {k: O.obs_class(c) for k, c in classes.items()}
    wcount = [0]
    operand_pool, operand_copy = {}, {}
    recent_keys = []  # label / label-slice keys used so far, as label objects (re-used later on other parties)

    def positions_for_read(party):
        n = party.n
        wcount[0] += 1
        return [((wcount[0] * 3) % n, wcount[0] % 2), ((wcount[0] * 5 + 1) % n, 0)]

    made = []  # faulty operands handed out during the current operation

    def make_value(vs, n_):
        v_ = RC.make_value(vs, n_)
        if isinstance(v_, RC.Faulty):
            made.append(v_)
            ctx.probe('faulty-operand:' + v_.mode + (':working' if v_.at is None else ''))
            if vs.get('cb'):
                v_.cb, v_.where = vs['cb'], cur
                if vs['cb'].startswith('w_'):
                    prepare_writing_callback(v_)
        return v_

    def prepare_writing_callback(v_):
        """The operand will write to the object on its own account while it is being read: pick a variable the outer
        operation does not name, keep a copy of the object as it is now (what a failed outer operation must leave behind
        is this copy plus the callback's own writes)."""
        x_ = cur['obj']
        pty = cur['party']
        op_ = cur['op']
        busy = {op_.get('name')} | {it[0] for it in op_.get('items', [])}
        cands = [nm_ for nm_ in pty.order if nm_ not in busy and nm_ in pty.ref and pty.ref[nm_].dtype.kind == 'f' and nm_ not in ('status', 'iterations')]
        cur['serial'] = cur.get('serial', 0) + 1
        cur['cbvar'] = cands[cur['serial'] % len(cands)] if cands else None
        cur['via'] = 'item' if cur['serial'] % 2 else 'attr'
        cur['cblabel'] = None
        if pty.unique and pty.n:
            j_ = cur['serial'] % pty.n
            cur['cblabel'] = (j_, pty.labels[j_])
        try:
            cur['shadow'] = x_.copy()
        except Exception:
            v_.cb = None  # (an object that cannot be copied: no shadow to judge a failed outer operation against)

    cur = {'obj': None}
    shared_locals = {}

    for step, op in enumerate(schedule['ops']):
        ctx.step = step
        for v_ in made:
            for _ in range(v_.fired):
                ctx.fault('data-source-error:' + v_.mode)
            for _ in range(v_.called):
                ctx.fault('operand-reads-back-from-the-object')
                ctx.probe('re-entrant-operand:' + str(v_.cb))
        del made[:]
        i = op.get('obj', 0)
        if i >= len(parties):
            ctx.log(step, op['op'], 'no-such-party')
            continue
        party = parties[i]
        x = party.obj
        cur.update(obj=x, party=party, op=op, same=None, shadow=None, pending_new=None, pending_nm=None)
        d = x.__dict__
        n = party.n
        kind = op['op']
        before = [O.obs(p.obj) for p in parties]
        outcome = 'ok'
        exc = None

        def apply_effects():
            """Writes a re-entrant operand made on its own account: each is a complete operation (it must be visible
            now), and the reference and the 'as it was' observation move along with it."""
            sh = cur.get('shadow')
            for v_ in made:
                for eff in v_.effects[v_.applied:]:
                    ctx.fault('operand-writes-to-the-object')
                    ctx.probe('re-entrant-write:' + eff[0])
                    if eff[0] == 'scalar':
                        _, nm_, val_ = eff
                        arr_ = d.get('_' + nm_)
                        ctx.check('C09', 're-entrant-write/whole-series-kept', isinstance(arr_, np.ndarray) and arr_.shape == (n,) and bool(np.all(arr_ == val_)), {'name': nm_, 'outer': kind})
                        if nm_ in party.ref:
                            party.ref[nm_] = np.full(n, val_, dtype=party.ref[nm_].dtype)
                        if sh is not None:
                            sh.__dict__['_' + nm_][:] = val_
                    elif eff[0] == 'cell':
                        _, nm_, pos_, val_ = eff
                        arr_ = d.get('_' + nm_)
                        ctx.check('C10', 're-entrant-write/labelled-cell-kept', isinstance(arr_, np.ndarray) and arr_.shape == (n,) and float(arr_[pos_]) == val_, {'name': nm_, 'position': pos_, 'outer': kind, 'got': canon(arr_.tolist()) if isinstance(arr_, np.ndarray) else None})
                        if nm_ in party.ref:
                            party.ref[nm_] = party.ref[nm_].copy()
                            party.ref[nm_][pos_] = val_
                        if cur.get('pending_new') is not None and cur.get('pending_nm') == nm_:
                            cur['pending_new'][pos_] = val_
                        if sh is not None:
                            sh.__dict__['_' + nm_][pos_] = val_
                    elif eff[0] == 'add':
                        nm_ = eff[1]
                        arr_ = d.get('_' + nm_)
                        ok_ = nm_ in d['index'] and isinstance(arr_, np.ndarray) and arr_.shape == (n,) and bool(np.all(arr_ == np.full(n, 0.5).astype(arr_.dtype))) and ('names' not in d or nm_ in d['names'])
                        ctx.check('C09', 're-entrant-write/added-variable-kept', ok_, {'name': nm_, 'index': list(d['index']), 'names': list(d.get('names', [])), 'outer': kind})
                        if nm_ not in party.order:
                            party.order.append(nm_)
                            # (a model built with dtype= gives the new variable that dtype)
                            party.ref[nm_] = arr_.copy() if (ok_ and isinstance(arr_, np.ndarray)) else np.full(n, 0.5)
                            party.dtypes[nm_] = party.ref[nm_].dtype
                        if sh is not None and nm_ not in sh.__dict__['index']:
                            sh.add_variable(nm_, 0.5)
                    if sh is not None:
                        before[i] = O.obs(sh)
                v_.applied = len(v_.effects)

        def attempt(fn):
            try:
                fn()
                return None
            except Exception as e:  # the operation's own failure mode is part of the spec
                return e
            finally:
                apply_effects()

        def settle(cls_, new, nm, prop, sig, fn):
            """Run fn against the object under expectation (cls_, new) for variable nm; update / resync the reference."""
            e = attempt(fn)
            if cls_ == 'fail':
                ctx.probe('must-fail:' + kind)
                ctx.check(prop, sig + '/must-raise', e is not None, {'op': {k: v for k, v in op.items() if k != 'value'}, 'value': op.get('value'), 'n': n})
                if e is None:
                    if nm is not None:
                        others_ = [k_ for k_ in party.order if k_ != nm and k_ in party.ref]
                        if others_ and list(d['index']) == party.order:
                            compare_ref(party, ctx, prop, sig + '/other-series-unchanged', others_)
                    if invariants(party, ctx, kind + '/' + _vclass(op.get('value'))):
                        pass
                    party.sync()
                else:
                    unchanged = O.obs(x) == before[i]
                    ctx.check(prop, sig + '/failed-op-leaves-object-unchanged', unchanged, {'paths': O.diff(before[i], O.obs(x))[:4]})
                    if not unchanged:
                        party.sync()
                return 'raised' if e is not None else 'accepted-bad'
            if cls_ == 'ok':
                ctx.probe('must-succeed:' + kind)
                ctx.check(prop, sig + '/must-succeed', e is None, {'exc': type(e).__name__ if e else None, 'msg': str(e)[:120] if e else None, 'op': {k: v for k, v in op.items() if k != 'value'}, 'value': op.get('value')})
                if e is not None and prop == 'C09' and kind in ('setattr', 'setitem'):
                    # a well-formed write through the attribute / name-key path that is refused can never be read back (C10)
                    ctx.check('C10', f'write-path/{kind}-refused-well-formed-value', False, {'exc': type(e).__name__, 'msg': str(e)[:120], 'n': n})
                if e is None:
                    if nm is not None and new is not None:
                        party.ref[nm] = new
                    if not compare_ref(party, ctx, prop, sig + '/contents'):
                        party.sync()
                else:
                    if O.obs(x) != before[i]:
                        party.sync()
                return 'ok' if e is None else 'raised-good'
            # MAY
            ctx.probe('may:' + kind)
            if e is not None:
                unchanged = O.obs(x) == before[i]
                ctx.check(prop, sig + '/failed-op-leaves-object-unchanged', unchanged, {'paths': O.diff(before[i], O.obs(x))[:4]})
            elif nm is not None:
                # whatever became of the assigned variable, every other series is as it was
                others_ = [k_ for k_ in party.order if k_ != nm and k_ in party.ref]
                if others_ and list(d['index']) == party.order:
                    compare_ref(party, ctx, prop, sig + '/other-series-unchanged', others_)
            if invariants(party, ctx, kind + '/' + _vclass(op.get('value'))):
                pass
            party.sync()
            return 'may-raised' if e is not None else 'may-ok'

        # -------------------------------------------------------------- operations
        if kind == 'add_variable':
            nm = op['name']
            v = make_value(op['value'], n)
            if op.get('pool') is not None:
                # the caller hands the very same writeable array to several operations / objects
                key = (op['pool'], n)
                if key not in operand_pool:
                    operand_pool[key] = np.arange(n, dtype=float) + 1000.0 * (op['pool'] + 1)
                    operand_copy[key] = operand_pool[key].copy()
                v = operand_pool[key]
                ctx.probe('caller-array-reused')
            dt = op.get('dtype')
            dtype_arg = None if dt is None else RC.DTYPES[dt]
            fn = lambda: x.add_variable(nm, v, dtype=dtype_arg) if dt is not None else x.add_variable(nm, v)  # noqa: E731
            if nm in party.order or (nm in d['_attributes'] and nm not in RESERVED):
                outcome = settle('fail', None, None, 'C09', 'add_variable/duplicate-name', fn)
            else:
                default_dt = None
                if 'dtype' in d and 'names' in d:
                    default_dt = d['dtype']
                cls_, new = RC.expect_add(v, dtype_arg if dt is not None else None, n, default_dt)
                e = attempt(fn)
                if cls_ == 'fail':
                    ctx.check('C09', 'add_variable/must-raise', e is not None, {'value': op['value'], 'n': n})
                    if e is not None:
                        ctx.check('C09', 'add_variable/failed-op-leaves-object-unchanged', O.obs(x) == before[i], {'paths': O.diff(before[i], O.obs(x))[:4]})
                    outcome = 'raised' if e is not None else 'accepted-bad'
                elif cls_ == 'ok':
                    ctx.check('C09', 'add_variable/must-succeed', e is None, {'exc': type(e).__name__ if e else None, 'value': op['value'], 'dtype': dt})
                    if e is None and ('_' + nm) in d and isinstance(d['_' + nm], np.ndarray):
                        got = d['_' + nm]
                        if dt is not None or default_dt is not None:
                            ctx.check('C09', 'add_variable/dtype-as-requested', got.dtype == new.dtype, {'got': str(got.dtype), 'want': str(new.dtype)})
                        elif type(v) in (bool, int, float):
                            # no dtype asked for: the series is created with the dtype of the value itself (an int makes
                            # an integer series whatever equal-valued floats or booleans went before)
                            ctx.check('C09', 'add_variable/dtype-of-the-scalar-given', got.dtype.kind == {bool: 'b', int: 'i', float: 'f'}[type(v)], {'got': str(got.dtype), 'value': repr(v)})
                        ctx.check('C09', 'add_variable/contents', got.shape == new.shape and RC.arrays_equal(got.astype(new.dtype), new), {'got': canon(got.tolist()), 'want': canon(new.tolist())})
                        ctx.check('C09', 'add_variable/appended-to-index', d['index'][-1] == nm and (('names' not in d) or d['names'][-1] == nm), {'index': list(d['index'])})
                    outcome = 'ok' if e is None else 'raised-good'
                else:
                    if e is not None:
                        ctx.check('C09', 'add_variable/failed-op-leaves-object-unchanged', O.obs(x) == before[i], {'paths': O.diff(before[i], O.obs(x))[:4]})
                    outcome = 'may-raised' if e is not None else 'may-ok'
                if ('_' + nm) in d and isinstance(d['_' + nm], np.ndarray) and nm in d['index']:
                    party.dtypes[nm] = d['_' + nm].dtype
                invariants(party, ctx, 'add_variable/' + _vclass(op['value']))
                party.sync()

        elif kind == 'assign_from':
            nm = op['name']
            j_ = op['other'] % len(parties)
            src_ = parties[j_]
            if j_ == i or nm not in party.ref or nm not in src_.ref or nm in RESERVED or len(src_.labels) != n or src_.ref[nm].dtype.kind == 'O' or party.ref[nm].dtype.kind == 'O':
                outcome = 'skipped'
            else:
                v = getattr(src_.obj, nm) if op['read'] == 'attr' else src_.obj[nm]
                cls_, new = RC.expect_whole(party.ref[nm], v, n)
                if op['via'] == 'attr':
                    fn = lambda: setattr(x, nm, v)  # noqa: E731
                elif op['via'] == 'item':
                    fn = lambda: x.__setitem__(nm, v)  # noqa: E731
                else:
                    fn = lambda: x.replace_values(**{nm: v})  # noqa: E731
                ctx.probe('series-of-one-object-assigned-to-another:' + ('same-dtype' if v.dtype == party.ref[nm].dtype else 'other-dtype'))
                outcome = settle(cls_, new, nm, 'C09', 'assign-from-another-object', fn)
                if outcome in ('ok', 'may-ok'):
                    shared_ = np.shares_memory(d['_' + nm], src_.obj.__dict__['_' + nm]) if isinstance(d.get('_' + nm), np.ndarray) else False
                    ctx.check('C11', 'assign-from-another-object/the-two-objects-hold-one-array', not shared_, {'name': nm, 'via': op['via']})

        elif kind in ('setattr', 'setitem'):
            nm = op['name']
            v = make_value(op['value'], n)
            if nm == '?unknown':
                if kind == 'setitem':
                    e = attempt(lambda: x.__setitem__('nosuchvar', v))
                    ctx.check('C09', 'setitem/unknown-name-must-raise', e is not None, None)
                    ctx.check('C09', 'setitem/failed-op-leaves-object-unchanged', O.obs(x) == before[i], None)
                    outcome = 'raised' if e is not None else 'accepted-bad'
                    party.sync()
                else:
                    outcome = 'skipped'
            elif nm in party.ref:
                cls_, new = RC.expect_whole(party.ref[nm], v, n)
                if kind == 'setattr' and nm not in RESERVED:
                    fn = lambda: setattr(x, nm, v)  # noqa: E731
                else:
                    fn = lambda: x.__setitem__(nm, v)  # noqa: E731
                outcome = settle(cls_, new, nm, 'C09', f'{kind}/{_vclass(op["value"])}', fn)
                if outcome in ('ok', 'may-ok'):
                    read_paths(party, nm, ctx, positions_for_read(party))

        elif kind in ('setitem_label', 'setitem_slice', 'get') and not party.unique:
            outcome = 'skipped-duplicate-labels'

        elif kind == 'setitem_label':
            nm = op['name']
            v = make_value(op['value'], n)
            if nm.startswith('?') and nm != '?unknown':
                # the name of a bookkeeping attribute is not the name of a variable
                bk = nm[1:]
                if bk in d['index'] or not party.unique or op['pos'] == 'absent' or op['pos'] >= n:
                    outcome = 'skipped'
                else:
                    lab_ = label_at(party, op['pos'], 0)
                    e = attempt(lambda: x.__setitem__((bk, lab_), 'Q'))
                    ctx.probe('bookkeeping-name-as-variable-key')
                    ctx.check('C09', 'setitem-label/bookkeeping-name-must-raise', e is not None, {'name': bk})
                    ctx.check('C09', 'setitem-label/failed-op-leaves-object-unchanged', O.obs(x) == before[i], {'name': bk, 'paths': O.diff(before[i], O.obs(x))[:4]})
                    outcome = 'raised' if e is not None else 'accepted-bad'
            elif nm == '?unknown':
                e = attempt(lambda: x.__setitem__(('nosuchvar', party.labels[0]), v))
                ctx.check('C09', 'setitem-label/unknown-name-must-raise', e is not None, None)
                ctx.check('C09', 'setitem-label/failed-op-leaves-object-unchanged', O.obs(x) == before[i], None)
                outcome = 'raised' if e is not None else 'accepted-bad'
                party.sync()
            elif nm in party.ref:
                sty = party.span_spec['type'] if party.span_spec else 'custom'
                if op['pos'] == 'absent':
                    lab = absent(party, ctx.step % 4)
                    e = attempt(lambda: x.__setitem__((nm, lab), v))
                    ctx.probe(f'label-absent:{sty}')
                    ctx.check('C10', f'label/absent-must-raise-KeyError/span={sty}', isinstance(e, KeyError), {'exc': type(e).__name__ if e else None, 'label': repr(lab)})
                    ctx.check('C10', 'label/absent-changes-nothing', O.obs(x) == before[i], {'paths': O.diff(before[i], O.obs(x))[:4]})
                    outcome = 'raised' if e is not None else 'accepted-bad'
                    party.sync()
                elif op['pos'] < n:
                    lab = label_at(party, op['pos'], op.get('form', 0))
                    recent_keys.append({'name': nm, 'single': lab})
                    cls_, new = RC.expect_positions(party.ref[nm], int(op['pos']), v)
                    ctx.probe(f'label-set:{sty}')
                    outcome = settle(cls_, new, nm, 'C10', f'label-set/span={sty}', lambda: x.__setitem__((nm, lab), v))
                    if outcome in ('ok', 'may-ok'):
                        read_paths(party, nm, ctx, positions_for_read(party) + [(op['pos'], 1 - op.get('form', 0))])

        elif kind == 'setitem_slice':
            nm = op['name']
            if nm in party.ref:
                sty = party.span_spec['type'] if party.span_spec else 'custom'
                v = make_value(op['value'], n)
                a, b, step = op['a'], op['b'], op['step']
                if isinstance(a, int) and a >= n:
                    a = n - 1
                if isinstance(b, int) and b >= n:
                    b = n - 1
                la = None if a is None else absent(party, ctx.step % 4) if a == 'absent' else label_at(party, a, op.get('fa', 0))
                lb = None if b is None else absent(party, (ctx.step + 1) % 4) if b == 'absent' else label_at(party, b, op.get('fb', 0))
                key = (nm, slice(la, lb, step))
                if a == 'absent' or b == 'absent':
                    e = attempt(lambda: x.__setitem__(key, v))
                    ctx.probe(f'slice-absent:{sty}')
                    ctx.check('C10', f'slice/absent-must-raise-KeyError/span={sty}', isinstance(e, KeyError), {'exc': type(e).__name__ if e else None})
                    ctx.check('C10', 'slice/absent-changes-nothing', O.obs(x) == before[i], None)
                    outcome = 'raised' if e is not None else 'accepted-bad'
                    party.sync()
                else:
                    pos = RC.resolve_slice(party.labels, a, b, step)
                    recent_keys.append({'name': nm, 'a': la, 'b': lb, 'step': step})
                    shape = 'open-start' if a is None else 'open-end' if b is None else 'a>b' if a > b else 'a==b' if a == b else 'a<b'
                    ctx.probe(f'slice-set:{sty}:{shape}:{"step" if step and step > 1 else "unit"}')
                    cls_, new = RC.expect_positions(party.ref[nm], RC.positional_slice(party.labels, a, b, step), v)
                    if not pos and cls_ == 'fail':
                        cls_ = 'may'
                    free_ = [j_ for j_ in range(n) if j_ not in set(pos)]
                    if free_ and party.unique and party.ref[nm].dtype.kind == 'f':
                        # (a re-entrant operand may write, by label, a period of this very variable that the slice does not address)
                        j_ = free_[(ctx.step + len(pos)) % len(free_)] if not (step and step > 1 and len(pos) > 1) else next((q_ for q_ in free_ if pos[0] < q_ < pos[-1]), free_[0])
                        cur['same'] = (nm, j_, party.labels[j_])
                        cur['pending_new'], cur['pending_nm'] = new, nm
                    outcome = settle(cls_, new, nm, 'C10', f'slice-set/span={sty}/{shape}', lambda: x.__setitem__(key, v))
                    if outcome in ('ok', 'may-ok'):
                        read_paths(party, nm, ctx, positions_for_read(party))

        elif kind == 'set_pos':
            nm = op['name']
            if nm in party.ref:
                v = make_value(op['value'], n)
                p = op['pos']
                if -n <= p < n:
                    cls_, new = RC.expect_positions(party.ref[nm], int(p), v)
                    how = ctx.step % 2

                    def fn():
                        arr = getattr(x, nm) if (how and nm not in RESERVED) else x[nm]
                        arr[p] = v

                    outcome = settle(cls_, new, nm, 'C10', 'position-set', fn)
                    if outcome in ('ok', 'may-ok'):
                        read_paths(party, nm, ctx, positions_for_read(party) + [(p % n, 0)])

        elif kind == 'replace_values':
            items = [(nm if nm != '?unknown' else 'nosuchvar', make_value(vs, n), vs) for nm, vs in op['items'] if nm == '?unknown' or nm in party.ref]
            if items:
                # applied left to right up to the first failure (DESIGN 3.x); each item judged as a whole-series assignment
                exp = []
                stop = None
                for nm, v, vs in items:
                    if nm == 'nosuchvar':
                        exp.append(('fail', None))
                        stop = len(exp) - 1
                        break
                    exp.append(RC.expect_whole(party.ref[nm], v, n))
                    if exp[-1][0] != 'ok':
                        stop = len(exp) - 1
                        break
                e = attempt(lambda: x.replace_values(**{nm: v for nm, v, _ in items}))
                if stop is None:
                    ctx.check('C09', 'replace_values/must-succeed', e is None, {'exc': type(e).__name__ if e else None})
                    if e is None:
                        for (nm, v, vs), (c, new) in zip(items, exp):
                            party.ref[nm] = new
                        if not compare_ref(party, ctx, 'C09', 'replace_values/contents'):
                            party.sync()
                    else:
                        party.sync()
                else:
                    if exp[stop][0] == 'fail':
                        ctx.check('C09', 'replace_values/must-raise', e is not None, {'item': items[stop][0], 'value': items[stop][2]})
                    if e is not None:
                        # the bulk replacement stopped at item `stop`: every series holds what it held before or, for an
                        # item with a well-formed value, its new contents - never anything else (whether the
                        # implementation applies left to right, validates first, or rolls back)
                        fired_ = isinstance(items[stop][1], RC.Faulty) and items[stop][1].fired
                        if fired_:
                            ctx.probe('bulk-replacement-interrupted-by-failing-source')
                        wellformed = {}
                        for j, (nm_, v_, vs_) in enumerate(items):
                            if nm_ == 'nosuchvar' or isinstance(v_, RC.Faulty):
                                continue
                            c_, new_ = exp[j] if j < len(exp) else RC.expect_whole(party.ref[nm_], v_, n)
                            if c_ == 'ok':
                                wellformed[nm_] = new_
                        maybe = set()
                        for j, (nm_, v_, vs_) in enumerate(items):
                            if nm_ == 'nosuchvar' or nm_ in wellformed:
                                continue
                            if (j == stop and exp[stop][0] == 'fail') or (isinstance(v_, RC.Faulty) and v_.fired):
                                continue  # the item that cannot fit / whose source failed: as it was
                            maybe.add(nm_)  # a value NumPy would accept with loss, or a working lazy source: either outcome
                        bad_ = []
                        for nm_, old_ in party.ref.items():
                            if nm_ in maybe:
                                continue
                            got_ = d.get('_' + nm_)
                            okv = isinstance(got_, np.ndarray) and (RC.arrays_equal(got_, old_) or (nm_ in wellformed and RC.arrays_equal(got_, wellformed[nm_])))
                            if not okv:
                                bad_.append(nm_)
                        ctx.check('C09', 'replace_values/' + ('failing-source' if fired_ else 'rejected') + '/containment', not bad_, {'changed': bad_[:4], 'failed-item': items[stop][0]})
                        ctx.check('C10', 'write-path/rejected-bulk-replacement-garbled-a-series', not bad_, {'changed': bad_[:4], 'failed-item': items[stop][0]})
                    invariants(party, ctx, 'replace_values')
                    party.sync()
                outcome = 'raised' if e is not None else 'ok'

        elif kind == 'set_values':
            names = list(d['names']) if 'names' in d else list(d['index'])
            vs = op['value']
            if not names:
                outcome = 'skipped'
            elif vs['k'] == 'matrix':
                rows, cols = len(names), n
                shp = {'ok': (rows, cols), 'rows+1': (rows + 1, cols), 'cols+1': (rows, cols + 1), 'flat': (rows * cols,), 'transposed': (cols, rows)}[vs['shape']]
                mat = (np.arange(int(np.prod(shp)), dtype=float) + vs['base']).reshape(shp)
                if vs.get('as') == 'np.matrix' and len(shp) == 2:
                    import warnings as _w

                    with _w.catch_warnings():
                        _w.simplefilter('ignore')
                        mat = np.asmatrix(mat)  # a 2-D array subclass whose rows stay 2-D when indexed
                    ctx.probe('values-setter:numpy-matrix')
                if vs.get('content') == 'str':
                    mat = np.array([f'w{int(v_)}' for v_ in mat.ravel()]).reshape(shp)
                elif vs.get('content') == 'none':
                    mat = np.full(shp, None, dtype=object)
                if vs['shape'] == 'ok' and op.get('pool') is not None:
                    # the caller assigns the very same 2-D array to several objects
                    key = ('M', op['pool'], rows, cols)
                    if key not in operand_pool:
                        operand_pool[key] = mat
                        operand_copy[key] = mat.copy()
                    mat = operand_pool[key]
                    ctx.probe('caller-matrix-reused')
                try:
                    current_shape = np.array([party.ref[nm] for nm in names]).shape
                except Exception:
                    current_shape = None
                e = attempt(lambda: setattr(x, 'values', mat))
                if shp != (rows, cols):
                    ctx.check('C09', 'values-setter/wrong-shape-must-raise', e is not None, {'shape': list(shp), 'want': [rows, cols]})
                    ctx.check('C09', 'values-setter/failed-op-leaves-object-unchanged', O.obs(x) == before[i], None)
                    party.sync()
                else:
                    homog = current_shape == (rows, cols) and not vs.get('content')
                    if vs.get('content'):
                        ctx.probe('values-setter:right-shape-unstorable-contents:' + ('raised' if e is not None else 'accepted'))
                    if homog:
                        ctx.check('C09', 'values-setter/must-succeed', e is None, {'exc': type(e).__name__ if e else None})
                    if e is None and vs.get('content'):
                        invariants(party, ctx, 'values-setter')
                        party.sync()
                    elif e is None:
                        ok_all = True
                        for r_, nm in enumerate(names):
                            want = np.asarray(mat)[r_].astype(party.ref[nm].dtype)
                            if party.ref[nm].dtype.kind == 'U':
                                ok_all = None
                                break
                            party.ref[nm] = want
                        if ok_all:
                            if not compare_ref(party, ctx, 'C09', 'values-setter/contents', names):
                                party.sync()
                        else:
                            invariants(party, ctx, 'values-setter')
                            party.sync()
                    else:
                        invariants(party, ctx, 'values-setter')
                        party.sync()
                outcome = 'raised' if e is not None else 'ok'
            else:
                v = make_value(vs, n)
                e = attempt(lambda: setattr(x, 'values', v))
                if e is None:
                    bad = False
                    for nm in names:
                        tmp = party.ref[nm].copy()
                        try:
                            tmp[:] = v
                        except Exception:
                            bad = True
                            break
                        if party.ref[nm].dtype.kind == 'U':
                            bad = True
                            break
                        party.ref[nm] = tmp
                    if bad:
                        invariants(party, ctx, 'values-setter-scalar')
                        party.sync()
                    elif not compare_ref(party, ctx, 'C09', 'values-setter-scalar/contents', names):
                        party.sync()
                else:
                    invariants(party, ctx, 'values-setter-scalar')
                    party.sync()
                outcome = 'raised' if e is not None else 'ok'

        elif kind == 'add_attribute':
            nm = op['name']
            val_ = attr_value(op.get('shape', 'int'), op['v'])
            if isinstance(val_, BackRef):
                val_.owner = x
            e = attempt(lambda: x.add_attribute(nm, val_))
            dup = nm in d['index'] or nm in before[i]['attributes']
            ctx.check('C09', 'add_attribute/duplicate-iff-raises', (e is not None) == dup, {'name': nm, 'exc': type(e).__name__ if e else None})
            if e is None:
                party.plain.add(nm)
            outcome = 'raised' if e is not None else 'ok'

        elif kind == 'set_attr_plain':
            nm = op['name']
            clsattr = hasattr(type(x), nm) and not isinstance(getattr(type(x), nm, None), property)
            storage_key = nm.startswith('_') and nm[1:] in d['index']
            if storage_key:
                clsattr = True  # handled like a class attribute name: only ever tried under strict
            setting = nm in ('engine', 'lags', 'leads') and 'names' in d and hasattr(x, nm)  # every model has these, however they are stored
            if nm in d['index'] or ((isinstance(getattr(type(x), nm, None), property) or (clsattr and not d['_strict'])) and not setting) or (nm in d and not storage_key and nm not in ('engine', 'lags', 'leads')):
                # (without strict, assigning over a method would only break the harness's own later calls)
                outcome = 'skipped'
            else:
                if clsattr:
                    ctx.probe('strict-vs-class-attribute-name')
                exists = nm in d['_attributes'] or setting
                strict = bool(d['_strict'])
                newval = op['v']
                if nm in ('lags', 'leads') and exists:
                    newval = op['v'] % 4  # an instance-level setting that need not be the class's LAGS / LEADS
                    ctx.probe('instance-level-lags/leads-' + ('changed' if newval != getattr(x, nm) else 'same'))
                elif nm == 'engine':
                    newval = 'python' if exists else op['v']
                if nm in ('engine', 'lags', 'leads') and not exists:
                    outcome = 'skipped'
                    ctx.outcome(kind, outcome)
                    continue
                if exists:
                    ctx.probe('existing-attribute-updated' + ('-under-strict' if strict else ''))
                e = attempt(lambda: setattr(x, nm, newval))
                if strict and not exists:
                    ctx.probe('strict-blocks-new-attribute')
                    ok = isinstance(e, AttributeError)
                    # several variables whose names differ only in case make the suggestion ambiguous: NotImplementedError is the documented gap
                    lower = [s.lower() for s in d['index']]
                    if isinstance(e, NotImplementedError) and len(set(lower)) != len(lower):
                        ok = True
                    ctx.check('C09', 'strict/new-attribute-must-raise-AttributeError', ok, {'name': nm, 'exc': type(e).__name__ if e else None})
                    ctx.check('C09', 'strict/no-new-key', (nm not in d or storage_key) and nm not in d['_attributes'], {'name': nm})
                    ctx.check('C09', 'strict/failed-op-leaves-object-unchanged', O.obs(x) == before[i], None)
                    if isinstance(e, AttributeError) and 'Did you mean' in str(e):
                        sug = str(e).split("Did you mean: '")[1].split("'")[0]
                        pool = list(d['names']) if 'names' in d else list(d['index'])
                        ctx.check('C09', 'strict/suggestion-is-a-variable', sug in pool, {'suggested': sug})
                        ctx.probe('strict-suggestion-given')
                    if isinstance(e, AttributeError) and 'Did you mean' not in str(e):
                        pool = list(d['names']) if 'names' in d else list(d['index'])
                        close = [s for s in pool if s.lower() == nm.lower()[: len(s)] or nm.lower().startswith(s.lower())]
                        if len(pool) == 1 and close:
                            ctx.check('C09', 'strict/near-miss-names-the-closest-variable', False, {'name': nm, 'variables': pool, 'message': str(e)[:160]})
                    outcome = 'blocked'
                else:
                    ctx.check('C09', 'plain-attribute/assignable', e is None, {'name': nm, 'exc': type(e).__name__ if e else None})
                    if e is None:
                        ctx.check('C09', 'plain-attribute/stored', d.get(nm) == newval, None)
                    outcome = 'ok' if e is None else 'raised'

        elif kind == 'eval_name':
            nm = op['name']
            expr = nm + (' + nosuchname_' if op['fail'] else '')
            res = []
            e = attempt(lambda: res.append(x.eval(expr)))
            owned = nm in d['index'] and ('names' not in d or nm in d['names'])
            if op['fail']:
                ctx.check('C11', 'eval/undefined-name-must-raise', e is not None, {'expr': expr})
                ctx.probe('eval-raised')
            elif owned:
                ok_ = e is None and isinstance(res[0], np.ndarray) and RC.arrays_equal(np.asarray(res[0]), d['_' + nm])
                ctx.check('C11', 'eval/sees-its-own-data', ok_, {'name': nm, 'exc': type(e).__name__ if e else None})
                # ... also when the caller hands the same dict as `locals` to every object of the run
                try:
                    got_ = x.eval(nm, locals=shared_locals)
                    ok2_ = isinstance(got_, np.ndarray) and RC.arrays_equal(np.asarray(got_), d['_' + nm])
                    ctx.check('C11', 'eval/shared-locals-dict-carries-data-between-objects', ok2_, {'name': nm, 'dict-now-holds': sorted(map(str, shared_locals))[:6]})
                    ctx.probe('eval-with-a-shared-locals-dict')
                except Exception as e_:
                    ctx.check('C11', 'eval/shared-locals-dict-carries-data-between-objects', False, {'exc': type(e_).__name__})
            elif nm not in d['index'] and nm not in d.get('aliases', {}) and not hasattr(x, nm):
                # a name only another object owns: nothing of that object may be visible here
                ctx.probe('eval-of-a-name-only-another-party-owns')
                ctx.check('C11', 'eval/resolved-a-name-it-does-not-own', e is not None, {'name': nm, 'got': canon(np.asarray(res[0]).tolist()) if res else None})
            outcome = 'raised' if e is not None else 'ok'

        elif kind == 'eval_nested':
            how = op['how']
            other = parties[op['other'] % len(parties)].obj
            nm = op['name']
            got = {}

            def direct(obj):
                try:
                    return ('value', canon(np.asarray(obj.eval(nm)).tolist()))
                except Exception as ex_:
                    return ('raise', type(ex_).__name__)

            if how == 'other_eval':
                want = direct(other)  # what the other object's eval() does when it is not nested in anything

                def f():
                    got['r'] = direct(other)
                    return 1.0
            elif how == 'self_eval':
                want = direct(x)

                def f():
                    got['r'] = direct(x)
                    return 1.0
            elif how == 'toggle_strict':
                want = not d['_strict']

                def f():
                    x.strict = not x.strict
                    return 1.0
            else:
                newname = 'EV%d' % op['k']
                want = newname

                def f():
                    if newname not in x.__dict__['index']:
                        x.add_variable(newname, 1.5)
                        got['r'] = newname
                    return 1.0

            res = []
            # (a name of this object's own is looked up after the callback has returned: it still means this object's series)
            own = next((nm_ for nm_ in d['index'] if nm_.isidentifier() and d['_' + nm_].dtype.kind == 'f' and ('names' not in d or nm_ in d['names'])), None)
            own_vals = None if own is None else d['_' + own].copy()
            e = attempt(lambda: res.append(x.eval('f() + 1' if own is None else f'f() * 0 + {own}', locals={'f': f})))
            ctx.probe('eval-with-a-function-that-calls-back:' + how)
            ctx.fault('callback-into-library')
            if own is None:
                ok_ = e is None and res and float(np.asarray(res[0])) == 2.0
            else:
                ok_ = e is None and res and isinstance(res[0], np.ndarray) and RC.arrays_equal(np.asarray(res[0], dtype=float), own_vals.astype(float))
            ctx.check('C11' if how == 'other_eval' else 'C09', 'eval/expression-with-callback-evaluates', ok_, {'exc': type(e).__name__ if e else None, 'how': how, 'own': own})
            if how in ('other_eval', 'self_eval') and 'r' in got:
                ctx.check('C11', 'eval/nested-eval-sees-what-a-plain-eval-sees', got['r'] == want, {'nested': got['r'], 'plain': want, 'name': nm, 'on': 'another object' if how == 'other_eval' else 'the same object'})
            elif how == 'toggle_strict' and e is None:
                ctx.check('C09', 'strict/set-from-inside-eval-is-kept', d['_strict'] is want, {'strict': d['_strict'], 'want': want})
                if d['_strict'] is not want:
                    x.strict = want
                before[i] = O.obs(x)  # (the switch moved, by its own setter)
            elif how == 'add_variable' and got.get('r'):
                arr_ = d.get('_' + newname)
                ok_ = newname in d['index'] and isinstance(arr_, np.ndarray) and arr_.shape == (n,) and ('names' not in d or newname in d['names'])
                ctx.check('C09', 're-entrant-write/added-variable-kept', ok_, {'name': newname, 'outer': 'eval'})
                if ok_ and newname not in party.order:
                    party.order.append(newname)
                    party.ref[newname] = arr_.copy()
                    party.dtypes[newname] = arr_.dtype
                before[i] = O.obs(x)
            outcome = 'raised' if e is not None else 'ok'

        elif kind == 'set_strict':
            x.strict = op['v']
            ctx.check('C09', 'strict/toggle', d['_strict'] is bool(op['v']), None)
            ctx.probe('strict-on' if op['v'] else 'strict-off')

        elif kind == 'get':
            nm = op['name']
            # ---- reads that list or look up names (interactive completion, dir()): reads, so nothing may change
            if op.get('pos', 0) % 3 == 0:
                try:
                    dir(x)
                    list(x._ipython_key_completions_())
                    ctx.probe('read:completions-and-dir')
                except Exception as e_:
                    ctx.check('C09', 'read/completions-raise', False, {'exc': type(e_).__name__})
                now_ = O.obs(x)
                ctx.check('C09', 'read/completions-changed-the-object', now_ == before[i], {'paths': O.diff(before[i], now_)[:4]})
            # ---- the same caller-owned dict handed as `locals` to eval() on every object of the run: each object answers
            #      with its own data, and the caller's dict comes back as it was
            if op.get('pos', 0) % 4 == 1 and nm in party.ref and nm.isidentifier() and ('names' not in d or nm in d['names']):
                try:
                    got_ = x.eval(nm, locals=shared_locals)
                    ok_ = isinstance(got_, np.ndarray) and RC.arrays_equal(np.asarray(got_), d['_' + nm])
                    ctx.check('C11', 'eval/shared-locals-dict-carries-data-between-objects', ok_ and not shared_locals, {'name': nm, 'dict-now-holds': sorted(map(str, shared_locals))[:6]})
                    ctx.probe('eval-with-a-shared-locals-dict')
                except Exception as e_:
                    ctx.check('C11', 'eval/shared-locals-dict-carries-data-between-objects', False, {'exc': type(e_).__name__})
                shared_locals.clear()
            # ---- the same object on an empty span: any label is absent (KeyError), an open slice addresses nothing
            if op.get('pos', 0) % 5 == 2 and nm in party.ref and 'submodels' not in d and party.span_spec is not None and party.span_spec['type'] not in ('pd_period_y', 'pd_period_q', 'pd_datetime'):
                # (not on pandas time indexes: a date-like string against an empty one is a partial-string look-up, which
                # pandas answers with an empty slice by design; and an OPEN slice on an empty span is left alone - the
                # property speaks of the ends of the span, and an empty span has none)
                try:
                    y_ = x.reindex(spans.make_span(dict(party.span_spec, n=0)))
                except Exception:
                    y_ = None
                now_ = O.obs(x)
                if now_ != before[i]:
                    # (a reindex - completed or failed - leaves its source as it was; a source whose span has changed
                    # under it can no longer be addressed by the labels this history knows)
                    for tag_ in ('C12', 'C10'):
                        ctx.check(tag_, 'reindex/source-and-others-unchanged' + ('/after-failure' if y_ is None else ''), False, {'party': i, 'paths': O.diff(before[i], now_)[:5], 'onto': 'an empty span of the same kind'})
                if y_ is not None and len(y_.__dict__['span']) == 0:
                    ctx.probe('empty-span-label-access')
                    lab_ = absent(party, ctx.step % 3)
                    e_ = attempt(lambda: y_[nm, lab_])
                    ctx.check('C10', 'label/absent-get-must-raise-KeyError/empty-span', isinstance(e_, KeyError), {'exc': type(e_).__name__ if e_ else None})
                    e_ = attempt(lambda: y_.__setitem__((nm, lab_), 1))
                    ctx.check('C10', 'label/absent-must-raise-KeyError/empty-span', isinstance(e_, KeyError), {'exc': type(e_).__name__ if e_ else None})
            if nm in party.ref:
                sty = party.span_spec['type'] if party.span_spec else 'custom'
                a, b, step = op['a'], op['b'], op['step']
                a = None if a is None else min(a, n - 1)
                b = None if b is None else min(b, n - 1)
                la = None if a is None else label_at(party, a, op.get('form', 0))
                lb = None if b is None else label_at(party, b, 0)
                pos = RC.resolve_slice(party.labels, a, b, step)
                recent_keys.append({'name': nm, 'a': la, 'b': lb, 'step': step})
                shape = 'open-start' if a is None else 'open-end' if b is None else 'a>b' if a > b else 'a==b' if a == b else 'a<b'
                ctx.probe(f'slice-get:{sty}:{shape}:{"step" if step and step > 1 else "unit"}')
                try:
                    got = x[nm, slice(la, lb, step)]
                    want = party.ref[nm][np.array(pos, dtype=int)]
                    ctx.check('C10', f'slice-get/span={sty}/{shape}', isinstance(got, np.ndarray) and got.shape == want.shape and RC.arrays_equal(np.asarray(got), want), {'got': canon(np.asarray(got).tolist()), 'want': canon(want.tolist()), 'a': a, 'b': b, 'step': step})
                except Exception as e:
                    ctx.check('C10', f'slice-get/span={sty}/{shape}', False, {'exc': type(e).__name__, 'a': a, 'b': b, 'step': step})
                read_paths(party, nm, ctx, [(min(op['pos'], n - 1), op.get('form', 0))])
                lab = absent(party, ctx.step % 4)
                e = attempt(lambda: x[nm, lab])
                ctx.check('C10', f'label/absent-get-must-raise-KeyError/span={sty}', isinstance(e, KeyError), {'exc': type(e).__name__ if e else None})
                if not ('names' in d and nm not in d['names']):  # `in` on a model asks about its `names`; the bookkeeping series are not among them
                    ctx.check('C09', 'contains', (nm in x) is True and ('nosuchvar' in x) is False, None)

        elif kind == 'spawn':
            outcome = do_spawn(fsic, parties, party, op, ctx, classes, class_before, spec)

        elif kind == 'mutate_list':
            outcome = do_mutate_list(party, op, ctx)

        elif kind == 'reuse_key':
            # the very same label / label-slice key that was used earlier (possibly on the object this one was copied or
            # reindexed from) is used again here: it must address the periods carrying those labels in THIS span
            if not recent_keys or not party.unique:
                outcome = 'skipped'
            else:
                key = recent_keys[op['k'] % len(recent_keys)]
                nm = key['name']

                hashed = type(d['span']).__module__.startswith('pandas')  # (a pandas index finds labels by hash)

                def where(lbl):
                    for j_, o_ in enumerate(party.labels):
                        try:
                            if bool(o_ == lbl):
                                if hashed and hash(o_) != hash(lbl):
                                    return 'unspecified'  # equal but hashed differently (a date and a datetime64): pandas' own semantics decide
                                return j_
                            # the exact string form of a period / timestamp addresses it only on a pandas time index
                            if isinstance(lbl, str) and type(d['span']).__name__ in ('PeriodIndex', 'DatetimeIndex') and str(o_) == lbl:
                                return j_
                        except Exception:
                            pass
                    return None

                if nm not in party.ref:
                    outcome = 'skipped'
                elif 'single' in key:
                    p_ = where(key['single'])
                    if p_ == 'unspecified':
                        outcome = 'skipped'
                    elif p_ is None:
                        e = attempt(lambda: x[nm, key['single']])
                        ctx.check('C10', 'reused-label/absent-here-must-raise-KeyError', isinstance(e, KeyError), {'exc': type(e).__name__ if e else None, 'label': repr(key['single'])})
                        outcome = 'absent'
                    else:
                        try:
                            got = x[nm, key['single']]
                            ctx.check('C10', 'reused-label/addresses-its-period-in-this-span', _scalar_eq(got, party.ref[nm][p_]), {'label': repr(key['single']), 'position-here': p_, 'got': canon(got), 'want': canon(party.ref[nm][p_])})
                        except Exception as e:
                            ctx.check('C10', 'reused-label/addresses-its-period-in-this-span', False, {'exc': type(e).__name__, 'label': repr(key['single'])})
                        ctx.probe('reused-label:' + party.origin)
                        outcome = 'ok'
                else:
                    pa = None if key['a'] is None else where(key['a'])
                    pb = None if key['b'] is None else where(key['b'])
                    if 'unspecified' in (pa, pb):
                        outcome = 'skipped'
                    elif (key['a'] is not None and pa is None) or (key['b'] is not None and pb is None):
                        e = attempt(lambda: x[nm, slice(key['a'], key['b'], key['step'])])
                        ctx.check('C10', 'reused-slice/absent-here-must-raise-KeyError', isinstance(e, KeyError), {'exc': type(e).__name__ if e else None})
                        outcome = 'absent'
                    else:
                        pos = RC.resolve_slice(party.labels, pa, pb, key['step'])
                        want = party.ref[nm][np.array(pos, dtype=int)]
                        try:
                            got = x[nm, slice(key['a'], key['b'], key['step'])]
                            ctx.check('C10', 'reused-slice/addresses-its-periods-in-this-span', isinstance(got, np.ndarray) and got.shape == want.shape and RC.arrays_equal(np.asarray(got), want), {'got': canon(np.asarray(got).tolist()), 'want': canon(want.tolist()), 'party': party.origin})
                        except Exception as e:
                            ctx.check('C10', 'reused-slice/addresses-its-periods-in-this-span', False, {'exc': type(e).__name__, 'party': party.origin})
                        ctx.probe('reused-slice:' + party.origin)
                        outcome = 'ok'

        elif kind == 'mutate_any':
            found = reachable_mutables(x)
            if not found:
                outcome = 'skipped'
            else:
                path, target = found[op['k'] % len(found)]
                # a span object that the *caller* handed to two objects (reindex onto an existing object's own span) is
                # shared by the caller's choice, not by fsic
                by_caller = any(pj is not party and pj.obj.__dict__.get('span') is target for pj in parties)
                undo_fn = None if by_caller else mutate_in_place(target)
                if undo_fn is None:
                    outcome = 'skipped'
                else:
                    ctx.probe('mutate_any:' + _generic(path)[:40])
                    try:
                        safe_others_unchanged(parties, i, before, class_before, ctx, 'mutate_any:' + _generic(path), classes)
                    finally:
                        undo_fn()
                    outcome = 'ok:' + _generic(path)

        elif kind == 'sub_poke':
            subs = d.get('submodels')
            if subs and op['sub'] in subs:
                sm = subs[op['sub']]
                nms = sm.__dict__['index']
                nm = nms[op['k'] % len(nms)]
                if sm.__dict__['_' + nm].dtype.kind == 'f' and op['pos'] < len(sm.__dict__['_' + nm]):
                    sm.__dict__['_' + nm][op['pos']] = op['v']
                    ctx.probe('submodel-mutated')
            else:
                outcome = 'skipped'

        elif kind == 'solve':
            if hasattr(x, 'solve') and n > 0:
                if hasattr(type(x), '_scripted') or '_ctl' in d or 'names' in d:
                    probes.get_ctl(x).arm({})
                for sm in d.get('submodels', {}).values():
                    probes.get_ctl(sm).arm({})
                kw = S.solver_kwargs(op['opts'])
                if 'trace' in d['index'] and op.get('trace'):
                    kw['trace'] = True
                if 'submodels' in d:
                    kw.pop('errors', None)
                iso = isolated_twin(fsic, x, party, spec) if party.fam == 'parser' else None
                if iso is not None:
                    # another instance of this very class, holding other data, is solved first (and thrown away)
                    try:
                        other = type(x)(__import__('copy').deepcopy(d['span']))
                        for nm_ in other.__dict__['index']:
                            if nm_ in d['index'] and other.__dict__['_' + nm_].dtype.kind == 'f' and other.__dict__['_' + nm_].shape == d['_' + nm_].shape:
                                other.__dict__['_' + nm_][:] = d['_' + nm_] * 1.5 + 1.0
                        other.solve(**dict(kw, failures='ignore', errors='ignore'))
                        ctx.probe('sibling-with-other-data-solved-first')
                    except Exception:
                        pass
                e = attempt(lambda: x.solve(**kw))
                outcome = 'ok' if e is None else type(e).__name__
                ctx.probe('solve-in-history')
                if iso is not None:
                    # the same state solved by an instance of a class built afresh from the same script - one that no other
                    # object of this history has ever shared a class with - gives the same results
                    e2 = attempt(lambda: iso.solve(**kw))
                    same = type(e) is type(e2) and all(RC.arrays_equal(d['_' + nm_], iso.__dict__['_' + nm_]) for nm_ in d['index'])
                    ctx.probe('solve-compared-with-an-isolated-class')
                    ctx.check('C11', 'solve/results-depend-on-other-instances-of-the-class', same, {'outcome': type(e).__name__ if e else None, 'isolated': type(e2).__name__ if e2 else None, 'differs': [nm_ for nm_ in d['index'] if not RC.arrays_equal(d['_' + nm_], iso.__dict__['_' + nm_])][:4]})
                party.sync()
            else:
                outcome = 'skipped'

        elif kind == 'reindex':
            outcome = do_reindex(fsic, parties, party, op, ctx, before[i], universe_spec, spec)

        # -------------------------------------------------------------- after every operation
        if kind != 'set_strict' and i < len(before):
            # whatever an operation did or failed to do, `strict` is changed by its own setter only
            ctx.check('C09', f'strict/changed-by-{kind}' + ('-that-raised' if 'raised' in str(outcome) else ''), bool(parties[i].obj.__dict__['_strict']) == bool(before[i]['strict']), {'before': before[i]['strict'], 'after': bool(parties[i].obj.__dict__['_strict'])})
        if kind in ('spawn', 'reindex'):
            # a spawn / reindex - completed or failed - must not change ANY pre-existing party, including its source
            # (judged before the invariants below, which repair what they find broken)
            for j in range(len(before)):
                now = O.obs(parties[j].obj)
                ctx.check('C11' if kind == 'spawn' else 'C12', f'{kind}/source-and-others-unchanged' + ('/after-failure' if 'raised' in str(outcome) else ''), now == before[j], {'party': j, 'paths': O.diff(before[j], now)[:5]})
        for key, arr in operand_pool.items():
            if not RC.arrays_equal(arr, operand_copy[key]):
                ctx.check('C11', f'callers-array-changed/{kind}', False, {'pool': key[0]})
                arr[:] = operand_copy[key]
        # (the other parties are judged before the invariants, which repair what they find broken)
        if kind == 'mutate_any':
            pass  # judged while the mutation was in place, then undone
        elif kind not in ('spawn', 'reindex'):
            others_unchanged(parties, i, before, class_before, ctx, kind, classes)
            undo = getattr(party, 'pending_undo', None)
            if undo:
                party.pending_undo = None
                lst = d.get(undo[0])
                if isinstance(lst, list) and undo[1] in lst:
                    lst.remove(undo[1])
        else:
            for cname, cls in classes.items():
                if cname in class_before:
                    now = O.obs_class(cls)
                    ctx.check('C11', f'class-state-changed/{kind}', now == class_before[cname], {'class': cname})
                    class_before[cname] = now
                else:
                    class_before[cname] = O.obs_class(cls)
        for pj in parties:
            invariants(pj, ctx, 'after-' + kind)
        values_size(party, ctx)
        ctx.outcome(kind, outcome)
        ctx.log(ctx.step, kind, i, outcome)
        ctx.state([kind, outcome, [[str(a.dtype), canon(a.tolist())] for a in party.ref.values()][:6], bool(d['_strict'])])


class CallbackNumber:
    """A fill value that is an object: turning it into a number (or a string) runs the user's code first."""

    def __init__(self, value, fn):
        self.value, self.fn, self.calls = value, fn, 0

    def _cb(self):
        if not self.calls:
            self.calls = 1
            try:
                self.fn()
            except Exception:
                pass

    def __float__(self):
        self._cb()
        return float(self.value)

    def __int__(self):
        self._cb()
        return int(self.value)

    __index__ = __int__

    def __bool__(self):
        self._cb()
        return bool(self.value)

    def __str__(self):
        self._cb()
        return str(self.value)


class BackRef:
    """An attribute that refers back to the object it hangs on, and whose copy is made by asking that object for a copy /
    reindexed version of itself (re-entrant use of copy() / reindex() from inside a copy under way)."""

    busy = False

    def __init__(self, owner, how):
        self.owner, self.how, self.nested = owner, how, None

    def __deepcopy__(self, memo):
        new = BackRef(None, self.how)
        o = self.owner
        if o is not None and not BackRef.busy:
            BackRef.busy = True
            try:
                new.nested = o.reindex(o.__dict__['span']) if self.how == 'reindex' else o.copy()
            except Exception as e:
                new.nested = e
            finally:
                BackRef.busy = False
        return new


def check_backrefs(y, x_obs, ctx, prop, sig, unique=True):
    """After a copy / reindex of an object carrying a BackRef: the nested copy that attribute asked for is an object of
    its own, equal to the source - not the copy that was under way."""
    for key, v in list(y.__dict__.items()):
        if isinstance(v, BackRef) and v.nested is not None:
            ctx.probe('re-entrant-copy-from-an-attribute:' + v.how)
            ctx.fault('callback-into-library')
            nested = v.nested
            v.nested = None
            if isinstance(nested, Exception):
                ctx.probe('re-entrant-copy-from-an-attribute:raised')  # (a linker cannot be reindexed, say: the attribute's own business)
                continue
            ok = nested is not y and type(nested) is type(y)
            ctx.check(prop, sig + '/nested-copy-is-an-object-of-its-own', ok, {'attribute': key, 'got': type(nested).__name__, 'is-the-outer-result': nested is y})
            if ok and (unique or v.how != 'reindex'):
                # (a reindex onto a span in which a label occurs twice takes both periods from the first: section 3.x, C12)
                now = O.obs(nested)
                ctx.check(prop, sig + '/nested-copy-equals-the-source', now == x_obs, {'paths': O.diff(x_obs, now)[:4]})


def isolated_twin(fsic, x, party, spec):
    """An instance of a class built afresh from the workload's script, holding exactly the state of `x` (None if `x` has
    grown variables the script does not declare)."""
    import copy as _copy

    d = x.__dict__
    mdl = spec.get('model') or {}
    if 'script' not in mdl:
        return None
    try:
        cls = fsic.build_model(fsic.parse_model(mdl['script']), **(mdl.get('build') or {}))
        y = cls(_copy.deepcopy(d['span']), strict=bool(d['_strict']), dtype=d['dtype']) if 'dtype' in d else cls(_copy.deepcopy(d['span']))
    except Exception:
        return None
    yd = y.__dict__
    if list(yd['index']) != list(d['index']) or any(yd['_' + nm].dtype != d['_' + nm].dtype or yd['_' + nm].shape != d['_' + nm].shape for nm in d['index']):
        return None
    for nm in d['index']:
        yd['_' + nm][:] = d['_' + nm]
    for key in ('lags', 'leads'):
        if key in d:
            yd[key] = d[key]
    for key in ('check', 'endogenous'):
        if isinstance(d.get(key), list):
            yd[key] = list(d[key])
    return y


def attr_value(shape, v):
    """Values a user may hang on an object as a plain attribute, including containers of mutable things."""
    if shape == 'list':
        return [v, v + 1]
    if shape == 'dict':
        return {'a': v, 'b': [v]}
    if shape == 'ndarray':
        return np.arange(3, dtype=float) + v
    if shape == 'tuple-of-list':
        return ([v, v + 1], 'label')
    if shape == 'tuple-of-ndarray':
        return (np.arange(2, dtype=float) + v, {'k': v})
    if shape == 'nested':
        return {'weights': np.ones(2) * v, 'names': ['x', 'y'], 'pair': ([v], (v,))}
    if shape == 'backref':
        return BackRef(None, 'reindex' if v % 2 else 'copy')  # (the owner is filled in when it is attached)
    if shape == 'uncopyable':
        # ordinary mutable contents next to something that cannot be deep-copied (a lock; likewise open files, generators)
        import threading

        return {'items': [v, v + 1], 'weights': np.ones(2) * v, 'guard': threading.Lock()}
    return v


def has_uncopyable(x):
    return any(isinstance(v, dict) and type(v.get('guard')).__name__ == 'lock' for v in x.__dict__.values())


def _vclass(vs):
    if not vs:
        return '-'
    k = vs['k']
    if k == 'scalar':
        return 'scalar'
    if k == 'seq':
        return f"{vs['c']}-len-{vs['len']}"
    if k == 'nested':
        return f"nested-rows-{vs['rows']}-cols-{vs['cols']}"
    if k == 'nd':
        return f"ndarray-{vs['shape']}"
    return k


# ----------------------------------------------------------------------------
# spawn (C11)


def do_spawn(fsic, parties, party, op, ctx, classes, class_before, spec):
    x = party.obj
    route = op['route']
    try:
        if route == 'copy':
            y = x.copy()
        elif route == 'copy.copy':
            y = _copy.copy(x)
        elif route == 'deepcopy':
            y = _copy.deepcopy(x)
        else:
            y = make_sibling(fsic, x, party, spec)
            if y is None:
                return 'skipped'
    except Exception as e:
        if has_uncopyable(x) and route != 'sibling':
            # the object carries something that cannot be copied: the copy may fail (the caller judges what is left behind)
            ctx.probe('copy-of-uncopyable-attribute-raised')
            ctx.fault('copy-failed-part-way')
            return 'raised'
        ctx.check('C11', f'spawn/{route}/must-succeed', False, {'exc': type(e).__name__, 'msg': str(e)[:160]})
        return 'raised'
    ctx.probe(f'spawn:{route}:{party.fam}')
    ctx.check('C11', f'spawn/{route}/same-class', type(y) is type(x), {'got': type(y).__name__})
    if route != 'sibling':
        a, b = O.obs(x), O.obs(y)
        ctx.check('C11', f'spawn/{route}/observationally-equal', a == b, {'paths': O.diff(a, b)[:5]})
        check_backrefs(y, a, ctx, 'C11', f'spawn/{route}', party.unique)
        if ctx.counters.get('steps', 0) >= 5:
            ctx.probe('copy-after>=5-operations')
    if route == 'sibling':
        # a new instance starts from what its class declares - not from what another instance of the class has since made
        # of its own lists and alias map
        yd_, cls_ = y.__dict__, type(y)
        for attr_, decl_ in (('check', 'CHECK'), ('endogenous', 'ENDOGENOUS'), ('preferred_names', 'PREFERRED_NAMES')):
            if isinstance(yd_.get(attr_), list) and hasattr(cls_, decl_):
                ctx.check('C11', f'spawn/sibling/starts-from-the-class/{attr_}', list(yd_[attr_]) == list(getattr(cls_, decl_)), {'got': canon(list(yd_[attr_])), 'class': canon(list(getattr(cls_, decl_)))})
        if isinstance(yd_.get('aliases'), dict) and isinstance(getattr(cls_, 'ALIASES', None), dict):
            decl_ = dict(cls_.ALIASES)

            def res_(k_, lim_=12):
                while k_ in decl_ and decl_[k_] != k_ and lim_:
                    k_, lim_ = decl_[k_], lim_ - 1
                return k_

            want_ = {k_: res_(k_) for k_ in decl_ if res_(k_) != k_}
            ctx.check('C11', 'spawn/sibling/starts-from-the-class/aliases', dict(yd_['aliases']) == want_, {'got': canon(sorted(map(str, yd_['aliases']))), 'class': canon(sorted(map(str, want_)))})
    if len(parties) >= MAXP:
        return 'checked-not-kept'
    if route == 'sibling':
        q = Party(y, spans.elements(y.__dict__['span']), party.span_spec, party.fam)
        q.origin = 'sibling'
    else:
        q = Party(y, list(party.labels), party.span_spec, party.fam)
        q.dtypes = dict(party.dtypes)
        q.origin = 'copy'
    parties.append(q)
    return 'ok'


def make_sibling(fsic, x, party, spec):
    """A new instance of the same class on an equal but distinct span object."""
    d = x.__dict__
    if party.span_spec is None:
        return None
    span = spans.make_span(party.span_spec)
    if 'submodels' in d:
        subs = {}
        for sid, sm in d['submodels'].items():
            s2 = type(sm)(spans.make_span(party.span_spec))
            probes.attach_ctl(s2)
            subs[sid] = s2
        return type(x)(subs) if subs else type(x)(subs, span=span)
    if type(x).__name__ == 'VectorContainer':
        return type(x)(span)
    y = type(x)(span)
    if '_ctl' in d:
        probes.attach_ctl(y)
    return y


def do_mutate_list(party, op, ctx):
    """Mutate a list / dict the user can reach on one party; visibility elsewhere is judged by others_unchanged."""
    x = party.obj
    d = x.__dict__
    attr, action, k = op['attr'], op['action'], op['k']
    pool = list(d['index'])
    pick = pool[k % len(pool)] if pool else 'Z'
    if attr in ('check', 'endogenous', 'preferred_names'):
        lst = d.get(attr)
        if not isinstance(lst, list):
            return 'skipped'
        if action == 'remove':
            if not lst:
                return 'skipped'
            lst.remove(lst[k % len(lst)])
        elif action == 'insert':
            lst.insert(0, pick)
        else:
            lst.append(pick)
        ctx.probe(f'list-mutated:{attr}')
        return 'ok'
    if attr == 'names':
        lst = d.get('names')
        if not isinstance(lst, list):
            return 'skipped'
        # probed and immediately undone on this party (a model whose names lists a missing variable is broken by the user)
        lst.append('__probe__')
        ctx.probe('list-mutated:names')
        party.pending_undo = ('names', '__probe__')
        return 'ok-undo'
    if attr == 'index':
        return 'skipped'
    if attr == 'aliases':
        al = d.get('aliases')
        if not isinstance(al, dict):
            return 'skipped'
        al[f'ZZ{k}'] = pick
        ctx.probe('list-mutated:aliases')
        return 'ok'
    if attr == 'trace_names':
        if 'trace' not in d['index']:
            return 'skipped'
        tr = d['_trace']
        t_ = tr[k % len(tr)]
        if isinstance(getattr(t_, 'names', None), list):
            t_.names.append('__probe__')
            ctx.probe('list-mutated:trace-names')
            return 'ok'
        return 'skipped'
    if attr == 'submodels':
        subs = d.get('submodels')
        if not isinstance(subs, dict) or not subs:
            return 'skipped'
        sid = list(subs)[k % len(subs)]
        sm = subs[sid]
        if action == 'remove':
            sm.__dict__['check'].append(sm.__dict__['index'][-1]) if isinstance(sm.__dict__.get('check'), list) else None
            ctx.probe('list-mutated:submodel-check')
        else:
            sm.__dict__['_status'][k % len(sm.__dict__['_status'])] = 'S'
            ctx.probe('submodel-mutated')
        return 'ok'
    return 'skipped'


# ----------------------------------------------------------------------------
# reindex (C12)


def do_reindex(fsic, parties, party, op, ctx, before_obs, universe_spec, spec):
    x = party.obj
    d = x.__dict__
    if 'submodels' in d or universe_spec is None or party.universe is not None or party.span_spec is None:
        return 'skipped'
    if 'trace' in d['index']:
        ctx.probe('reindex:of-a-traced-model')
    n = party.n
    new_spec = None
    uni = spans.make_span(universe_spec)
    uni_labels = spans.elements(uni)
    old_idx = list(range(3, 3 + n))
    if [str(a) for a in party.labels] != [str(uni_labels[j]) for j in old_idx]:
        return 'skipped'
    idxs = [j for j in op['idx'] if 0 <= j < len(uni_labels)]
    if not idxs:
        return 'skipped'
    how = op['as']
    mode = op.get('mode', 'idx')
    contiguous = idxs == list(range(idxs[0], idxs[0] + len(idxs)))
    ty = party.span_spec['type']
    if mode == 'same-object':
        # the caller passes the object's own span back in
        new_span = d['span']
        new_type = 'same-object'
        idxs = list(old_idx)
    elif mode == 'range-phase' and ty == 'range_step':
        # a stepped range out of phase with the old one: overlapping in extent, no label in common
        st = party.span_spec.get('step', 2)
        o = party.span_spec.get('origin', 0) + 1 + (op.get('k', 0) % max(1, st - 1))
        new_span = range(o, o + n * st, st)
        new_type = 'range-out-of-phase'
        idxs = None
    elif how == 'same' and contiguous:
        new_spec = dict(party.span_spec, n=len(idxs), origin=universe_spec['origin'] + idxs[0])
        new_span = spans.make_span(new_spec)
        new_type = ty
    else:
        items = [uni_labels[j] for j in idxs]
        if how == 'np' and ty == 'list_date':
            new_span = np.array(items, dtype='datetime64[D]')  # equal labels of another type, hashed differently
            new_type = 'np-datetime64'
        elif how == 'np' and ty == 'pd_datetime':
            new_span = np.array([it.to_datetime64() for it in items])  # equal labels of another type (and hash)
            new_type = 'np-datetime64'
        elif how == 'np' and ty not in ('list_mixed', 'list_numstr', 'pd_period_y', 'pd_period_q', 'pd_datetime'):
            new_span = np.array(items)
            new_type = 'np'
        elif how == 'pd' and ty != 'list_mixed':
            import pandas as pd

            new_span = pd.Index(items)
            new_type = 'pd'
        else:
            new_span = list(items)
            new_type = 'list'
    new_labels = spans.elements(new_span)
    if idxs is not None and new_type != 'np-datetime64' and [str(a) for a in new_labels] != [str(uni_labels[j]) for j in idxs]:
        return 'skipped'
    # where does each new period come from? decided by label equality against the old span, nothing else
    def _find(lbl):
        for j_, o_ in enumerate(party.labels):
            try:
                if bool(o_ == lbl):
                    return j_
            except Exception:
                pass
        return None

    source = [_find(lbl) for lbl in new_labels]
    if idxs is None:
        relation = 'out-of-phase'
    else:
        relation = 'same' if idxs == old_idx else 'repeat' if len(set(idxs)) < len(idxs) else 'permute' if sorted(idxs) != idxs else 'disjoint' if not set(idxs) & set(old_idx) else 'shift-or-resize'
    if mode == 'same-object':
        relation = 'same-object'
    ctx.probe(f'reindex:{relation}:{new_type}')
    is_model = 'names' in d and 'status' in d['index']
    fills = dict(op['fills'])
    fv = op['fill_value']
    strict_arg = op['strict']
    eff_strict = bool(d['_strict']) if strict_arg is None else strict_arg
    pandas_mixin = 'pandasmixin' in party.fam
    unknown = [k for k in fills if k not in d['index']]
    if pandas_mixin:
        # the property covers the pandas-based extension with its default (pandas) arguments: no fill value and no fills
        # for variables; the strict keyword and an unknown fill name are still part of the common reindex contract
        fills = {k: v for k, v in fills.items() if k == 'NOPE'}
        fv = None
        unknown = [k for k in fills if k not in d['names']]
    if pandas_mixin and op.get('pd_args'):
        pa = dict(op['pd_args'])
        data_names = [nm for nm in d['names']]
        pick = data_names[op.get('k', 0) % len(data_names)] if data_names else None
        kw_ = {}
        for k_, v_ in pa.items():
            if v_ == '?':
                v_ = pick
            if k_ == 'fills':
                if pick is not None:
                    kw_[pick] = v_
            elif v_ is not None:
                kw_[k_] = v_
        try:
            y = x.reindex(new_span, **kw_)
        except Exception:
            ctx.probe('reindex:pandas-arguments:raised')
            return 'may-raised'
        ctx.probe('reindex:pandas-arguments:' + '+'.join(sorted(pa)))
        ctx.check('C12', 'pandas-mixin/arguments/same-class', type(y) is type(x), {'got': type(y).__name__})
        yd = y.__dict__
        ctx.check('C12', 'pandas-mixin/arguments/variable-order', list(yd['index']) == list(d['index']), {'got': list(yd['index'])})
        for nm in d['index']:
            got = yd.get('_' + nm)
            ok_ = isinstance(got, np.ndarray) and got.shape == (len(new_labels),)
            ctx.check('C12', 'pandas-mixin/arguments/length', ok_, {'name': nm, 'shape': list(getattr(got, 'shape', []))})
            if ok_:
                ctx.check('C12', 'pandas-mixin/arguments/dtype-carried-over', got.dtype == party.ref[nm].dtype, {'name': nm, 'got': str(got.dtype), 'want': str(party.ref[nm].dtype), 'arguments': canon(kw_)})
        if len(parties) < MAXP:
            q = Party(y, new_labels, None, party.fam, universe=True)
            q.origin = 'reindexed'
            q.dtypes = dict(party.dtypes)
            parties.append(q)
        return 'ok'
    kw = dict(fills)
    if fv is not None:
        kw['fill_value'] = fv
    if strict_arg is not None:
        kw['strict'] = strict_arg
    cbn = None
    fcb = op.get('fill_cb')
    numeric = [k_ for k_, v_ in kw.items() if k_ != 'strict' and isinstance(v_, (int, float)) and not isinstance(v_, bool) and (k_ == 'fill_value' or k_ in d['index'])]
    if fcb and any(isinstance(v_, BackRef) for v_ in d.values()):
        fcb = None  # (one source of re-entrant calls at a time: their relative order inside reindex() is not prescribed)
    if fcb and numeric and not pandas_mixin and not unknown:
        key_ = numeric[fcb['k'] % len(numeric)]
        seen = {}
        own_strict = bool(d['_strict'])
        rx = 'RX%d' % fcb['k']

        def fn_():
            if fcb['what'] == 'nested_reindex':
                try:
                    x.reindex(d['span'], NOPE_=1)  # (strict left to the object's own switch)
                    seen['r'] = 'accepted'
                except KeyError:
                    seen['r'] = 'KeyError'
            elif fcb['what'] == 'add_variable':
                if rx not in d['index']:
                    x.add_variable(rx, 2.5)
                    seen['added'] = rx
            else:
                x.copy()

        cbn = CallbackNumber(kw[key_], fn_)
        kw[key_] = cbn
    try:
        y = x.reindex(new_span, **kw)
        e = None
    except Exception as ex:
        y, e = None, ex
    if cbn is not None and cbn.calls:
        ctx.probe('fill-value-calls-back:' + fcb['what'])
        ctx.fault('callback-into-library')
        if 'r' in seen:
            # a reindex() nested in a reindex(strict=...) goes by the object's own switch, not by the outer call's keyword
            ctx.check('C12', 're-entrant/nested-reindex-goes-by-the-objects-own-strict', seen['r'] == ('KeyError' if own_strict else 'accepted'), {'nested': seen['r'], 'object-strict': own_strict, 'outer-strict-keyword': strict_arg})
        if seen.get('added'):
            # the variable the callback added is the callback's: whatever the result made of it, every series the result
            # lists has one element per period of the new span
            if y is not None:
                yd_ = y.__dict__
                ragged = [nm_ for nm_ in yd_['index'] if not (isinstance(yd_.get('_' + nm_), np.ndarray) and yd_['_' + nm_].shape == (len(new_labels),))]
                ctx.check('C12', 're-entrant/result-has-one-element-per-period-in-every-series', not ragged, {'ragged': ragged[:4]})
                for host in (yd_,):
                    if rx in host['index']:
                        host['index'].remove(rx)
                        host.pop('_' + rx, None)
                        if rx in host.get('names', []):
                            host['names'].remove(rx)
            for host in (d,):
                if rx in host['index']:
                    host['index'].remove(rx)
                    host.pop('_' + rx, None)
                    if rx in host.get('names', []):
                        host['names'].remove(rx)
    if unknown and eff_strict:
        ctx.probe('reindex:unknown-fill-under-strict')
        ctx.check('C12', 'unknown-fill-name/KeyError-under-strict', isinstance(e, KeyError), {'exc': type(e).__name__ if e else None, 'unknown': unknown})
        return 'raised'
    # expected contents
    expected = {}
    lossy = False
    for nm in d['index']:
        old = party.ref[nm]
        dt = old.dtype
        if dt.kind == 'O':
            continue  # the tracer's record (one log object per period): judged by content below, no fill is defined for it
        val = fills.get(nm, fv)
        if is_model and nm in ('status', 'iterations'):
            # the model's bookkeeping defaults ('-' and -1) yield only to a per-variable keyword, not to fill_value
            val = fills.get(nm)
            if nm in fills and val is None:
                continue  # an explicit None for a bookkeeping series: dtype default or model default, the text does not say
        if val is None:
            if is_model and nm == 'status':
                val = '-'
            elif is_model and nm == 'iterations':
                val = -1
            else:
                val = {'f': float('nan'), 'i': 0, 'u': 0, 'b': False, 'U': ''}.get(dt.kind)
        try:
            if dt.kind == 'b':
                val = bool(val)
            elif dt.kind in 'iu':
                val = int(val)
            elif dt.kind == 'U':
                val = str(val)
                if len(val) > dt.itemsize // 4:
                    lossy = True
            arr = np.full(len(new_labels), val, dtype=dt)
        except Exception:
            lossy = True
            continue
        for newpos, j in enumerate(source):
            if j is not None:
                arr[newpos] = old[j]
        expected[nm] = arr
    if lossy:
        ctx.probe('reindex:fill-incompatible-with-dtype')
        if y is None:
            return 'may-raised'
    sig = 'pandas-mixin' if pandas_mixin else 'base'
    if y is None and has_uncopyable(x):
        ctx.probe('reindex-of-uncopyable-attribute-raised')
        ctx.fault('copy-failed-part-way')
        return 'raised'
    if y is None:
        if not lossy:
            ctx.check('C12', f'{sig}/must-succeed', False, {'exc': type(e).__name__, 'msg': str(e)[:200], 'kw': canon(kw), 'relation': relation})
        return 'raised'
    ctx.check('C12', f'{sig}/same-class', type(y) is type(x), {'got': type(y).__name__})
    yd = y.__dict__
    ctx.check('C12', f'{sig}/span-is-the-new-span', [str(a) for a in spans.elements(yd['span'])] == [str(a) for a in new_labels] and type(yd['span']) is type(new_span), {'got': type(yd['span']).__name__})
    ctx.check('C12', f'{sig}/variable-order', list(yd['index']) == list(d['index']), {'got': list(yd['index'])})
    for nm in d['index']:
        got = yd.get('_' + nm)
        if not isinstance(got, np.ndarray):
            ctx.check('C12', f'{sig}/series-present', False, {'name': nm})
            continue
        ctx.check('C12', f'{sig}/dtype-carried-over', got.dtype == party.ref[nm].dtype, {'name': nm, 'got': str(got.dtype), 'want': str(party.ref[nm].dtype)})
        ctx.check('C12', f'{sig}/length', got.shape == (len(new_labels),), {'name': nm, 'shape': list(got.shape)})
        if got.dtype.kind == 'O' and got.shape == (len(new_labels),):
            # each period present in both spans holds its old record (equal in content; that it is not the very same
            # object is the independence clause, exercised by the operations that follow)
            old_ = d['_' + nm]
            want_fill = fills.get(nm, fv)
            for p_, j_ in enumerate(source):
                if j_ is not None:
                    ctx.check('C12', f'{sig}/overlap/object-{relation}', O.obs_value(got[p_]) == O.obs_value(old_[j_]), {'name': nm, 'period': p_})
                elif want_fill is not None and not pandas_mixin:
                    # a fill that was asked for applies to this series as to any other (no default is defined for it)
                    passed_ = kw.get(nm, kw.get('fill_value'))  # (the very object the caller passed, where the fill is an object)
                    ctx.check('C12', f'{sig}/fill/object-explicit', got[p_] is passed_ or (type(got[p_]) is type(want_fill) and got[p_] == want_fill), {'name': nm, 'period': p_, 'got': repr(got[p_])[:40], 'want': repr(want_fill)})
            continue
        if nm in expected and got.shape == expected[nm].shape and got.dtype == expected[nm].dtype:
            kindname = {'f': 'float', 'i': 'int', 'u': 'int', 'b': 'bool', 'U': 'str'}.get(got.dtype.kind, 'other')
            src = 'per-variable' if nm in fills else 'fill_value' if fv is not None else 'default'
            ctx.probe(f'reindex-fill:{kindname}:{src}')
            same = RC.arrays_equal(got, expected[nm])
            role = 'bookkeeping' if (is_model and nm in ('status', 'iterations')) else kindname
            # split the verdict: overlapping periods vs filled periods
            if not same:
                ov = [p for p, j in enumerate(source) if j is not None]
                keep_ok = all(_scalar_eq(got[p], expected[nm][p]) for p in ov)
                which = 'fill' if keep_ok else 'overlap'
                ctx.check('C12', f'{sig}/{which}/{role}-{src if which == "fill" else relation}', False, {'name': nm, 'got': canon(got.tolist()), 'want': canon(expected[nm].tolist()), 'relation': relation, 'kw': canon(kw)})
            else:
                ctx.check('C12', f'{sig}/contents', True)
    # attributes, lags/leads, strict carry over; the source is unchanged (checked by the caller against `before`)
    a, b = O.obs(x), O.obs(y)
    check_backrefs(y, a, ctx, 'C12', f'{sig}/re-entrant', party.unique)
    for key in ('strict', 'attributes', 'attrs', 'class'):
        ctx.check('C12', f'{sig}/carried-over/{key}', a[key] == b[key], {'paths': O.diff(a[key], b[key])[:4]})
    for key in ('lags', 'leads'):
        if hasattr(x, key):
            ctx.check('C12', f'{sig}/carried-over/{key}', getattr(y, key, None) == getattr(x, key), {'before': canon(getattr(x, key)), 'after': canon(getattr(y, key, None))})
    if len(parties) < MAXP:
        # (a result on a span of the same kind keeps the kind's spec, so that later label operations on it also use the
        # other spellings of its labels - '2001Q3' for a quarterly period, say)
        q = Party(y, new_labels, new_spec, party.fam, universe=True)
        q.origin = 'reindexed'
        q.dtypes = dict(party.dtypes)
        parties.append(q)
    return 'ok'
