"""Alias workload (C18): the same history applied to an aliased model through randomly chosen names/aliases and to a
canonical twin (same class without the mixin) through canonical names only.

Schedule: {'spec': {'model': scripted-or-parser spec, 'aliases': {...}, 'preferred': [...], 'span', 'init_kw': {...}},
           'ops': [ {'op': ..., 'name': canonical, 'via': alias-or-name, ...} ]}
"""
import numpy as np

from .. import REPO, import_fsic, probes, ref_container as RC, scripts, spans
from ..kernel import canon
from . import solver as S

BUDGET = 20000  # line events allowed for one constructor call (a normal one takes a few hundred)


def gen_aliases(rng, names):
    """Alias map over `names`: many-to-one, chains up to 3, aliases of aliases, self-maps of variables."""
    al = {}
    topo = set()
    pool = ['GDP', 'CONS', 'INV', 'K1', 'K2', 'K3', 'Q', 'R_', '_gdp', 'gdp', '__k']  # (an alias is a name like any other: it may begin with an underscore, differ from another only by case)
    rng.shuffle(pool)
    for _ in range(rng.randint(1, 5)):
        if not pool:
            break
        r = rng.random()
        if r < 0.45:
            al[pool.pop()] = rng.choice(names)
            topo.add('direct')
        elif r < 0.6 and len(pool) >= 2:
            tgt = rng.choice(names)
            al[pool.pop()] = tgt
            al[pool.pop()] = tgt
            topo.add('many-to-one')
        elif r < 0.8 and al:
            al[pool.pop()] = rng.choice(list(al))
            topo.add('alias-of-alias')
        elif r < 0.92 and len(pool) >= 3:
            a, b, c = pool.pop(), pool.pop(), pool.pop()
            al[a] = b
            al[b] = c
            al[c] = rng.choice(names)
            topo.add('chain-3')
        else:
            v = rng.choice(names)
            al[v] = v
            topo.add('self-map')
    # dict order is part of the configuration: shuffle so that chains are not always declared head first
    items = list(al.items())
    rng.shuffle(items)
    return dict(items), sorted(topo)


def resolve(al, name, limit=10):
    seen = 0
    while name in al and al[name] != name and seen < limit:
        name = al[name]
        seen += 1
    return name


def generate(rng, idx, tier, variant):
    n = rng.randint(1, 7)
    sp = {'type': rng.choice(spans.TYPES), 'n': n, 'origin': rng.choice([0, 2, 5])}
    if rng.random() < 0.5:
        prog = scripts.gen_program(rng, max_eq=3, max_lag=1, max_lead=1)
        while prog['lags'] + prog['leads'] + 1 > n:
            n += 1
        sp['n'] = n
        model = {'kind': 'parser', 'script': prog['script'], 'names': list(prog['names']), 'endo': list(prog['endo']), 'lags': prog['lags'], 'leads': prog['leads'], 'declared': list(prog['declared']), 'init': scripts.gen_data(rng, prog, n)}
        names = list(prog['names'])
    else:
        model = S.gen_spec(rng, 'solver', tier)
        model['lags'] = model['leads'] = 0
        model['span'] = sp
        model['init'] = {nm: [rng.choice(S.DYADS) for _ in range(n)] for nm in model['endo'] + model['exo']}
        names = model['endo'] + model['exo']
    al, topo = gen_aliases(rng, names)
    handles = {nm: [nm] + [a for a in al if resolve(al, a) == nm and a != nm] for nm in names}
    if model['kind'] == 'parser' and rng.random() < 0.35:
        # verbatim code (statements and excerpts in backticks, which the parser passes through as they stand) that spells
        # its variables through aliases: "generated solution code sees the same data". The canonical twin's script spells
        # the same code by the variables' own names.
        def handle(nm_):
            hs = [h for h in handles[nm_] if h != nm_]
            return rng.choice(hs) if hs and rng.random() < 0.85 else nm_

        def access(nm_, h_, form):
            if h_.startswith('__') and form in (0, 3):
                form = 1  # (Python mangles `self.__k` inside a class body: no such spelling exists in generated code)
            return {0: f'self.{h_}[t]', 1: f"self['{h_}'][t]", 2: f"self['{h_}',self.span[t]]", 3: f'self.{h_}[t:t + 1][0]', 4: f"getattr(self, '{h_}')[t]"}[form]

        la, lc, vb = [], [], {'forms': []}
        plain = [x for x in names if x not in prog.get('params', []) and x not in prog.get('errs', [])]
        if rng.random() < 0.7:
            # an equation (for a variable of its own) with excerpts of verbatim code among its terms
            parts_a, parts_c = ['0.5 * VB'], ['0.5 * VB']
            for _ in range(rng.randint(1, 3)):
                nm_ = rng.choice(names)
                h_ = handle(nm_)
                f_ = rng.randrange(5)
                c_ = rng.choice(scripts.COEFS)
                parts_a.append(f'{c_} * `{access(nm_, h_, f_)}`')
                parts_c.append(f'{c_} * `{access(nm_, nm_, f_)}`')
                vb['forms'].append(['read', f_, h_ != nm_])
            la.append('VB = ' + ' + '.join(parts_a))
            lc.append('VB = ' + ' + '.join(parts_c))
            model['endo'] = model['endo'] + ['VB']
            model['names'] = model['endo'] + [x for x in model['names'] if x not in model['endo']]
            k_ = max(model['declared'].index(x) for x in model['endo'] if x != 'VB') + 1
            model['declared'] = model['declared'][:k_] + ['VB'] + model['declared'][k_:]
            model['init']['VB'] = [rng.choice([0.5, 1.0, 2.0]) for _ in range(n)]
        if rng.random() < 0.6 or not la:
            # a whole statement of verbatim code that assigns a variable through an alias (any variable: the parser does
            # not look inside)
            nm_, src_ = rng.choice(plain), rng.choice(names)
            h_, hs_ = handle(nm_), handle(src_)
            f_ = rng.choice([0, 1, 2])
            g_ = rng.randrange(5)
            la.append(f'`{access(nm_, h_, f_)} = 0.5 * {access(src_, hs_, g_)} + 0.25`')
            lc.append(f'`{access(nm_, nm_, f_)} = 0.5 * {access(src_, src_, g_)} + 0.25`')
            vb['forms'].append(['write', f_, h_ != nm_])
            vb['forms'].append(['read', g_, hs_ != src_])
        where = rng.choice(['end', 'end', 'start'])
        sa, sc = '\n'.join(la), '\n'.join(lc)
        model['script_canonical'] = (model['script'] + '\n' + sc) if where == 'end' else (sc + '\n' + model['script'])
        model['script'] = (model['script'] + '\n' + sa) if where == 'end' else (sa + '\n' + model['script'])
        if where == 'start' and 'VB' in model['endo']:
            model['endo'] = ['VB'] + [x for x in model['endo'] if x != 'VB']
            model['names'] = model['endo'] + [x for x in model['names'] if x not in model['endo']]
            model['declared'] = ['VB'] + [x for x in model['declared'] if x != 'VB']
        model['verbatim'] = vb
        if 'VB' in model['endo']:
            names = names + ['VB']
            handles['VB'] = ['VB']
    pref = []
    r = rng.random()
    universe = names + [a for a in al if a not in names]
    if r < 0.5:
        pref = []
    elif r < 0.85:
        # at most one name per variable
        for nm in rng.sample(names, min(len(names), rng.randint(1, 3))):
            pref.append(rng.choice(handles[nm]))
    else:
        pref = rng.sample(universe, min(len(universe), rng.randint(2, 3)))  # may be ambiguous
    init_kw = {}
    for nm in rng.sample(names, rng.randint(0, min(2, len(names)))):
        init_kw[nm] = {'via': rng.choice(handles[nm]), 'v': [float(rng.randrange(1, 50)) for _ in range(n)] if rng.random() < 0.6 else float(rng.randrange(1, 50))}
    spec = {'span': sp, 'model': model, 'aliases': [[k_, v_] for k_, v_ in al.items()], 'topology': topo, 'preferred': pref, 'init_kw': init_kw, 'strict': rng.random() < 0.3}
    if sp['type'] in ('list_str', 'list_int', 'list_mixed', 'list_numstr', 'list_date') and rng.random() < 0.25:
        spec['cbspan'] = True  # a span whose label lookup runs user code (it may replace a series while a label write is half-way)
    # how the object comes into being: plain constructor or from_dataframe; directly on (AliasMixin, Base) or as a subclass
    # of another alias-enabled class (with other aliases) that may already have been instantiated in this process
    spec['route'] = rng.choice(['init', 'init', 'from_dataframe']) if sp['type'] != 'list_mixed' else 'init'
    if rng.random() < 0.2:
        spec['tracer'] = rng.choice(['alias-first', 'tracer-first'])  # both twins also carry the tracer mixin
    if rng.random() < 0.2:
        # an alias of an underscore-prefixed (internal) variable that is added after construction and is not exported by default
        spec['internal'] = True
        spec['aliases'].append(['HID', '_hid'])
    if rng.random() < 0.15:
        spec['np_names'] = True  # names and aliases arrive as NumPy strings (e.g. taken from an array of column names)
    if rng.random() < 0.3:
        pal, _ = gen_aliases(rng, names)
        spec['parent'] = {'aliases': [[k_, v_] for k_, v_ in pal.items() if k_ != v_], 'instantiate_first': rng.random() < 0.7}
    ops = []
    base = 100
    pref_targets = {resolve(al, p_) for p_ in pref}
    fresh = ['NEW1', 'new_2', 'NEW3', '_new4']
    for _ in range(rng.randint(3, 16)):
        nm = rng.choice(names)
        r_ = rng.random()
        if r_ < 0.05 and fresh:
            # an alias added on the instance after construction (`model.aliases['x'] = 'C'`): from then on a name like the
            # class's own aliases - for every access path, for exports, and on every copy of the object
            a_ = fresh.pop()
            ops.append({'op': 'add_alias', 'name': nm, 'via': a_})
            handles[nm] = handles[nm] + [a_]
            continue
        if r_ < 0.09 and len(set(pref)) == len(pref) and len({resolve(al, p_) for p_ in pref}) == len(pref) and nm not in pref_targets:
            # a preference declared on the instance (`model.preferred_names.append(...)`) for a variable that has none yet
            h_ = rng.choice(handles[nm])
            ops.append({'op': 'prefer', 'name': nm, 'via': h_})
            pref_targets.add(nm)
            continue
        if r_ < 0.13:
            # the object replaced by a copy of itself: instance-level aliases and preferences travel with it
            ops.append({'op': 'recopy', 'name': nm, 'via': nm, 'route': rng.choice(['copy', 'copy.copy', 'deepcopy'])})
            continue
        via = rng.choice(handles[nm])
        base += 11
        kind = rng.choice(['setattr', 'setattr', 'setitem', 'setitem_label', 'setitem_slice', 'set_pos', 'replace_values', 'get', 'get', 'solve', 'to_dataframe', 'contains_dir', 'near_miss'])
        op = {'op': kind, 'name': nm, 'via': via}
        if kind == 'near_miss':
            # a misspelt name (of the variable or of one of its aliases): refused under strict, on both twins alike
            op['typo'] = rng.choice([via + 'x', via.lower() + '_', via[:-1] + 'Q' if len(via) > 1 else via + 'q', 'zz' + via])
        if kind in ('setattr', 'setitem'):
            r = rng.random()
            if r < 0.4:
                op['value'] = {'k': 'scalar', 'e': 'float', 'base': base}
            elif r < 0.85:
                op['value'] = {'k': 'seq', 'c': rng.choice(['list', 'tuple', 'ndarray']), 'len': 'n', 'e': 'float', 'base': base}
            else:
                op['value'] = {'k': 'seq', 'c': 'list', 'len': rng.choice(['n+1', 'n-1']), 'e': 'float', 'base': base}
            others = [x_ for x_ in names if x_ != nm]
            if r >= 0.4 and r < 0.85 and rng.random() < 0.2:
                # the right-length value is a lazily read data source that, while it is being read, uses the object it is
                # being assigned to (re-entrant use) - through an alias on the aliased twin, through the name on the other
                nm2 = rng.choice(others) if others else nm
                op['cb'] = {'what': rng.choice(['w_attr', 'w_attr', 'w_item', 'toggle_strict', 'see_strict', 'adhoc_attr', 'copy_strict', 'read']), 'name2': nm2, 'via2': rng.choice(handles[nm2]), 'mode': rng.choice(['len', 'getitem', 'array'])}
        elif kind == 'setitem_label':
            op.update({'pos': rng.randrange(n), 'form': rng.choice([0, 1]), 'value': {'k': 'scalar', 'e': 'float', 'base': base}})
        elif kind == 'setitem_slice':
            op.update({'a': rng.choice([None] + list(range(n))), 'b': rng.choice([None] + list(range(n))), 'step': rng.choice([None, 1, 2]), 'value': {'k': 'scalar', 'e': 'float', 'base': base}})
        elif kind == 'set_pos':
            op.update({'pos': rng.randrange(n), 'value': {'k': 'scalar', 'e': 'float', 'base': base}})
        elif kind == 'replace_values':
            items = []
            for nm2 in rng.sample(names, min(len(names), rng.randint(1, 3))):
                base += 11
                r2 = rng.random()
                vs = {'k': 'scalar', 'e': 'float', 'base': base} if r2 < 0.45 else {'k': 'seq', 'c': 'list', 'len': 'n' if r2 < 0.85 else rng.choice(['n+1', 'n-1']), 'e': 'float', 'base': base}
                items.append([nm2, rng.choice(handles[nm2]), vs])
            op['items'] = items
        elif kind == 'get':
            op.update({'pos': rng.randrange(n), 'form': rng.choice([0, 1]), 'a': rng.choice([None] + list(range(n))), 'b': rng.choice([None] + list(range(n)))})
        elif kind == 'solve':
            opts = S.gen_opts(rng, False)
            opts['max_iter'] = min(opts['max_iter'], 300)
            opts['offset'] = 0
            opts['failures'] = 'ignore'
            opts['errors'] = rng.choice(['raise', 'skip', 'ignore'])
            if opts['min_iter'] > opts['max_iter']:
                opts['min_iter'] = 0
            op['opts'] = opts
            if spec.get('tracer'):
                k_ = rng.randint(1, min(3, len(names)))
                picks = rng.sample(names, k_)
                op['trace'] = [[nm2, rng.choice(handles[nm2])] for nm2 in picks] if rng.random() < 0.8 else True
        elif kind == 'to_dataframe':
            op['use_aliases'] = rng.random() < 0.8
        ops.append(op)
    return {'spec': spec, 'ops': ops}


def build_classes(fsic, spec, ctx=None):
    from fsic.extensions import AliasMixin

    model = spec['model']
    if model['kind'] == 'parser' and model.get('verbatim'):
        # two scripts, one class each: verbatim code spelt through aliases under the alias mixin, and the same code spelt by
        # the variables' own names for the canonical twin
        base = probes.build_parser_class(fsic, dict(model, script=model['script_canonical']), ctx)
        under = probes.build_parser_class(fsic, model, ctx)
        if base is None or under is None:
            raise S.BuildFailed()
        if spec.get('tracer'):
            from fsic.extensions import TracerMixin

            base = type('TracedBase', (TracerMixin, base), {})
            under = type('TracedBase', (TracerMixin, under), {})
        return base, _mix(spec, under, AliasMixin)
    if model['kind'] == 'parser':
        base = probes.build_parser_class(fsic, model, ctx)
        if base is None:
            raise S.BuildFailed()
    else:
        base = probes.make_scripted(fsic, model)
    if spec.get('tracer'):
        from fsic.extensions import TracerMixin

        base = type('TracedBase', (TracerMixin, base), {})
    return base, _mix(spec, base, AliasMixin)


def _mix(spec, base, AliasMixin):
    par = spec.get('parent')
    if spec.get('tracer') == 'tracer-first' and not par:
        from fsic.extensions import TracerMixin

        inner = base.__mro__[2] if base.__name__ == 'TracedBase' else base
        mixed = type('Aliased', (TracerMixin, AliasMixin, inner), {'ALIASES': dict(map(tuple, spec['aliases'])), 'PREFERRED_NAMES': list(spec['preferred'])})
        return mixed
    if par:
        parent = type('AliasedParent', (AliasMixin, base), {'ALIASES': dict(map(tuple, par['aliases']))})
        if par.get('instantiate_first'):
            try:
                parent(spans.make_span(spec['span']))
            except Exception:
                pass
        mixed = type('Aliased', (parent,), {'ALIASES': dict(map(tuple, spec['aliases'])), 'PREFERRED_NAMES': list(spec['preferred'])})
    else:
        mixed = type('Aliased', (AliasMixin, base), {'ALIASES': dict(map(tuple, spec['aliases'])), 'PREFERRED_NAMES': list(spec['preferred'])})
    return mixed


def _series(obj):
    d = obj.__dict__
    return {nm: d.get('_' + nm) for nm in d['index']}  # (None where the index names something that has no storage)


class CallbackSpan(list):
    """A list of labels whose lookup runs the user's code first (a span that loads history lazily on first lookup, say)."""

    cb = None

    def index(self, *args):
        fn, self.cb = self.cb, None
        if fn is not None:
            fn()
        return super().index(*args)


def _span(spec):
    sp_ = spans.make_span(spec['span'])
    return CallbackSpan(sp_) if spec.get('cbspan') and isinstance(sp_, list) else sp_


class TwinSource:
    """A sequence-like data source (only __len__ / __getitem__, or __array__) that runs a callback while it is read."""

    def __init__(self, items, mode, fn):
        self.items, self.mode, self.fn, self.done = items, mode, fn, False

    def _cb(self):
        if not self.done:
            self.done = True
            self.fn()

    def __len__(self):
        if self.mode == 'len':
            self._cb()
        return len(self.items)

    def __getitem__(self, i):
        if isinstance(i, slice):
            return [self[j] for j in range(*i.indices(len(self.items)))]
        if i < 0:
            i += len(self.items)
        if not 0 <= i < len(self.items):
            raise IndexError(i)
        if self.mode != 'len' and (i == 1 or len(self.items) == 1):
            self._cb()
        return self.items[i]


def _twin_callback(obj, cb, handle, seen, val):
    """The same use of the object on both twins: through `handle` (an alias on the aliased one, the name on the other)."""

    def fn():
        try:
            what = cb['what']
            if what == 'w_attr':
                setattr(obj, handle, val)
            elif what == 'w_item':
                obj[handle] = val
            elif what == 'toggle_strict':
                obj.strict = not obj.strict
            elif what == 'see_strict':
                seen.append(bool(obj.strict))
            elif what == 'adhoc_attr':
                obj.adhoc_note = 1
            elif what == 'copy_strict':
                seen.append(bool(obj.copy().strict))
            else:
                seen.append(canon(np.asarray(obj[handle]).tolist()))
            seen.append('ok')
        except Exception as e:
            seen.append(type(e).__name__)

    return fn


def _traces_equal(A, K):
    ta, tk = A.__dict__.get('_trace'), K.__dict__.get('_trace')
    if ta is None or tk is None:
        return (ta is None) == (tk is None), 'presence'
    for p, (x, y) in enumerate(zip(ta.tolist(), tk.tolist())):
        if [str(v) for v in x.index] != [str(v) for v in y.index]:
            return False, f'labels@{p}'
        if np.asarray(x.values).shape != np.asarray(y.values).shape or not bool(np.array_equal(np.asarray(x.values, dtype=float), np.asarray(y.values, dtype=float), equal_nan=True)):
            return False, f'values@{p}'
    return True, None


def _same_state(A, K):
    a, k = _series(A), _series(K)
    a.pop('trace', None)
    k.pop('trace', None)
    if [x for x in A.__dict__['index']] != [x for x in K.__dict__['index']]:
        return False, ['index']
    bad = [nm for nm in a if not (isinstance(a[nm], np.ndarray) and isinstance(k.get(nm), np.ndarray) and RC.arrays_equal(a[nm], k[nm]))]
    return not bad, bad


def execute(schedule, ctx):
    fsic = import_fsic()
    spec = schedule['spec']
    chk = lambda sig, ok, detail=None: ctx.check('C18', sig, ok, detail)  # noqa: E731
    try:
        base, mixed = build_classes(fsic, spec, ctx)
    except S.BuildFailed:
        ctx.log('build-failed')
        return
    al = dict(map(tuple, spec['aliases']))  # declaration order is part of the configuration: kept as a pair list
    model = spec['model']
    names = list(model['names']) if model['kind'] == 'parser' else model['endo'] + model['exo']
    for t_ in spec.get('topology', []):
        ctx.probe('topology:' + t_)
    # ---- expected preferred-name ambiguity
    targets = [resolve(al, p) for p in spec['preferred']]
    ambiguous = len(set(targets)) < len(targets)

    kwA, kwK = {}, {}
    NS = np.str_ if spec.get('np_names') else (lambda x_: x_)
    if spec.get('np_names'):
        ctx.probe('names-as-numpy-strings')
    for nm, it in spec['init_kw'].items():
        kwA[NS(it['via'])] = it['v']
        kwK[NS(nm)] = it['v']
        if it['via'] != nm:
            ctx.probe('constructor-keyword-through-alias')

    route = spec.get('route', 'init')
    if spec.get('parent'):
        ctx.probe('class:subclass-of-alias-class' + ('/parent-instantiated-first' if spec['parent'].get('instantiate_first') else ''))
    ctx.probe('route:' + route)

    def frame(kw):
        import pandas as pd

        return pd.DataFrame({k: v for k, v in kw.items()}, index=spans.make_span(spec['span']))

    def construct_A():
        if route == 'from_dataframe':
            return mixed.from_dataframe(frame(kwA), strict=spec['strict'])
        return mixed(_span(spec), strict=spec['strict'], **kwA)

    lb = probes.LineBudget([REPO + '/fsic'], limit=BUDGET, mode='stop')
    try:
        A = lb.run(construct_A)
        errA = None
    except probes.LineBudget.Exceeded:
        chk('construction-does-not-terminate/' + ('self-map' if 'self-map' in spec.get('topology', []) else 'other'), False, {'aliases': al, 'line-events': lb.n})
        ctx.fault('step-budget-stop')
        ctx.outcome('construct', 'does-not-terminate')
        return
    except Exception as e:
        A, errA = None, e
    ctx.count('steps', 1)
    if ambiguous:
        ctx.probe('preferred:ambiguous')
        chk('preferred/ambiguous-rejected', isinstance(errA, ValueError), {'exc': type(errA).__name__ if errA else None, 'preferred': spec['preferred'], 'aliases': al})
        # ... every time, not only the first (copies and reindexed results are made by constructing the class again)
        try:
            probes.LineBudget([REPO + '/fsic'], limit=BUDGET, mode='stop').run(construct_A)
            err2 = None
        except probes.LineBudget.Exceeded:
            err2 = None
        except Exception as e:
            err2 = e
        chk('preferred/ambiguous-rejected-on-retry', isinstance(err2, ValueError), {'exc': type(err2).__name__ if err2 else None, 'preferred': spec['preferred'], 'aliases': al})
        ctx.outcome('construct', 'ambiguous:' + (type(errA).__name__ if errA else 'accepted'))
        return
    if route == 'from_dataframe':
        K = base.from_dataframe(frame(kwK), strict=spec['strict'])
    else:
        K = base(_span(spec), strict=spec['strict'], **kwK)
    chk('construction/succeeds', errA is None, {'exc': type(errA).__name__ if errA else None, 'msg': str(errA)[:200] if errA else None, 'aliases': al, 'kw': list(kwA)})
    if A is None:
        ctx.outcome('construct', 'raised')
        return
    ctx.probe('preferred:' + ('present' if spec['preferred'] else 'absent'))
    for obj in (A, K):
        for nm, vals in model['init'].items():
            if nm in obj.__dict__['index'] and nm not in spec['init_kw']:
                obj.__dict__['_' + nm][:] = vals
        if model['kind'] != 'parser':
            probes.attach_ctl(obj)
    span = A.__dict__['span']
    n = len(span)
    ok, bad = _same_state(A, K)
    chk('construction/keywords-through-aliases', ok, {'differs': bad, 'kw': list(kwA)})
    if spec.get('internal'):
        for obj in (A, K):
            obj.add_variable('_hid', 0.5)
        ctx.probe('alias-of-internal-variable')
        try:
            chk('read/internal-variable-through-alias', bool(np.array_equal(A['HID'], K['_hid'])), None)
        except Exception as e:
            chk('read/internal-variable-through-alias', False, {'exc': type(e).__name__})

    def storage_ok(when):
        # "aliases create no additional storage": no array lives in the aliased object that the canonical twin lacks, and
        # the variable list is the twin's (private non-array bookkeeping of the mixin is its own business)
        arrA = sorted(k for k, v in A.__dict__.items() if isinstance(v, np.ndarray))
        arrK = sorted(k for k, v in K.__dict__.items() if isinstance(v, np.ndarray))
        chk('no-extra-storage', arrA == arrK, {'extra': sorted(set(arrA) - set(arrK)), 'missing': sorted(set(arrK) - set(arrA)), 'when': when})
        # ... and the object's own account of its storage agrees with the twin's
        rep = {}
        for attr in ('nbytes', 'size', 'names', 'index'):
            try:
                rep[attr] = (canon(getattr(A, attr)), canon(getattr(K, attr)))
            except Exception as e:
                rep[attr] = (type(e).__name__, None)
        bad_ = sorted(k for k, (a_, k_) in rep.items() if a_ != k_)
        chk('reported-storage-same-as-twin', not bad_, {'differs': {k: rep[k] for k in bad_}, 'when': when})
        chk('no-extra-attributes', list(A.__dict__['index']) == list(K.__dict__['index']), {'aliased': list(A.__dict__['index'])[:12], 'canonical': list(K.__dict__['index'])[:12], 'when': when})

    storage_ok('construction')
    pref_now = list(spec['preferred'])  # (instance-level additions join these as the history goes)

    for step, op in enumerate(schedule['ops']):
        ctx.step = step
        kind, nm, via = op['op'], NS(op['name']), NS(op['via'])
        path = 'alias' if via != nm else 'canonical'

        def both(fa, fk):
            ra = rk = None
            try:
                ra = ('ok', fa())
            except Exception as e:
                ra = ('exc', type(e).__name__)
            try:
                rk = ('ok', fk())
            except Exception as e:
                rk = ('exc', type(e).__name__)
            return ra, rk

        def val(r):
            if r[0] != 'ok':
                return r
            v = r[1]
            if isinstance(v, np.ndarray):
                return ('ok', canon(v.tolist()))
            return ('ok', canon(v))

        if kind == 'add_alias':
            A.aliases[via] = nm
            al[op['via']] = op['name']
            ctx.probe('instance-level:alias-added')
            ctx.log(step, kind, op['via'], op['name'])
            ctx.outcome(kind, 'ok')
            storage_ok(kind)
            continue
        if kind == 'prefer':
            A.preferred_names.append(via)
            pref_now.append(op['via'])
            ctx.probe('instance-level:preference-added')
            ctx.log(step, kind, op['via'], op['name'])
            ctx.outcome(kind, 'ok')
            continue
        if kind == 'recopy':
            import copy as _copy

            try:
                A2 = A.copy() if op['route'] == 'copy' else _copy.copy(A) if op['route'] == 'copy.copy' else _copy.deepcopy(A)
                K2 = K.copy() if op['route'] == 'copy' else _copy.copy(K) if op['route'] == 'copy.copy' else _copy.deepcopy(K)
            except Exception as e:
                chk('recopy/works', False, {'exc': type(e).__name__, 'msg': str(e)[:160], 'route': op['route']})
                continue
            A, K = A2, K2
            ctx.probe('history:replaced-by-a-copy:' + op['route'])
            ok, bad = _same_state(A, K)
            chk('recopy/same-effect', ok, {'differs': bad, 'route': op['route']})
            storage_ok(kind)
            ctx.log(step, kind, op['route'])
            ctx.outcome(kind, 'ok')
            continue
        if kind in ('setattr', 'setitem'):
            v = RC.make_value(op['value'], n)
            vA = vK = v
            seenA, seenK = [], []
            if op.get('cb') and isinstance(v, (list, tuple, np.ndarray)) and len(v) == n and op['cb']['name2'] != nm:
                cb = op['cb']
                vA = TwinSource(list(v), cb['mode'], _twin_callback(A, cb, NS(cb['via2']), seenA, 9000.0 + step))
                vK = TwinSource(list(v), cb['mode'], _twin_callback(K, cb, NS(cb['name2']), seenK, 9000.0 + step))
                ctx.probe('re-entrant-operand-on-both-twins:' + cb['what'])
                ctx.fault('callback-into-library')
            if kind == 'setattr':
                ra, rk = both(lambda: setattr(A, via, vA), lambda: setattr(K, nm, vK))
            else:
                ra, rk = both(lambda: A.__setitem__(via, vA), lambda: K.__setitem__(nm, vK))
            if vA is not vK:
                # what the data source met when it used the object half-way through the assignment is the same on both
                chk('re-entrant/callback-meets-the-same-object', seenA == seenK, {'aliased': seenA[:4], 'canonical': seenK[:4], 'what': op['cb']['what']})
                chk('re-entrant/strict-same-as-twin', bool(A.__dict__['_strict']) == bool(K.__dict__['_strict']), {'aliased': bool(A.__dict__['_strict']), 'canonical': bool(K.__dict__['_strict'])})
                for obj in (A, K):
                    obj.__dict__.pop('adhoc_note', None)
                    if 'adhoc_note' in obj.__dict__.get('_attributes', []):
                        obj.__dict__['_attributes'].remove('adhoc_note')
        elif kind == 'setitem_label':
            v = RC.make_value(op['value'], n)
            lab = spans.label_forms(spec['span'], span, op['pos'] % n, op['form'])
            if isinstance(A.__dict__['span'], CallbackSpan) and isinstance(K.__dict__['span'], CallbackSpan):
                # looking the label up replaces the whole series (equal values, a new array): the write must still land
                def rebind(obj, handle):
                    def fn():
                        try:
                            setattr(obj, handle, [float(x_) for x_ in np.asarray(obj[handle]).tolist()])
                        except Exception:
                            pass
                    return fn

                A.__dict__['span'].cb = rebind(A, via)
                K.__dict__['span'].cb = rebind(K, nm)
                ctx.probe('label-lookup-replaces-the-series')
                ctx.fault('callback-into-library')
            ra, rk = both(lambda: A.__setitem__((via, lab), v), lambda: K.__setitem__((nm, lab), v))
        elif kind == 'setitem_slice':
            v = RC.make_value(op['value'], n)
            a = None if op['a'] is None else spans.label_forms(spec['span'], span, min(op['a'], n - 1), 0)
            b = None if op['b'] is None else spans.label_forms(spec['span'], span, min(op['b'], n - 1), 0)
            ra, rk = both(lambda: A.__setitem__((via, slice(a, b, op['step'])), v), lambda: K.__setitem__((nm, slice(a, b, op['step'])), v))
        elif kind == 'set_pos':
            v = RC.make_value(op['value'], n)
            p = op['pos'] % n

            def fa():
                getattr(A, via)[p] = v

            def fk():
                getattr(K, nm)[p] = v

            ra, rk = both(fa, fk)
        elif kind == 'replace_values':
            ia = {NS(vvia): RC.make_value(vs, n) for _, vvia, vs in op['items']}
            ik = {NS(cn): RC.make_value(vs, n) for cn, _, vs in op['items']}
            if len(ia) != len(ik):
                continue
            ra, rk = both(lambda: A.replace_values(**ia), lambda: K.replace_values(**ik))
            path = 'alias' if any(x != y for x, y, _ in op['items']) else 'canonical'
        elif kind == 'get':
            p = op['pos'] % n
            lab = spans.label_forms(spec['span'], span, p, op['form'])
            a = None if op['a'] is None else spans.label_forms(spec['span'], span, min(op['a'], n - 1), 0)
            b = None if op['b'] is None else spans.label_forms(spec['span'], span, min(op['b'], n - 1), 0)
            results = []
            for fa, fk, what in (
                (lambda: getattr(A, via), lambda: getattr(K, nm), 'attribute'),
                (lambda: A[via], lambda: K[nm], 'name-key'),
                (lambda: A[via, lab], lambda: K[nm, lab], 'label'),
                (lambda: A[via, a:b], lambda: K[nm, a:b], 'label-slice'),
            ):
                ra_, rk_ = both(fa, fk)
                chk(f'read/{what}/{path}', val(ra_) == val(rk_), {'via': via, 'name': nm, 'aliased': val(ra_), 'canonical': val(rk_)})
                results.append(val(ra_)[0])
            # the alias returns the very array that stores the variable (writes through it must land)
            try:
                chk('read/same-storage', getattr(A, via) is A.__dict__['_' + nm], {'via': via, 'name': nm})
            except Exception:
                pass
            ra = rk = ('ok', None)
        elif kind == 'solve':
            opts = op['opts']
            if model['kind'] != 'parser':
                probes.get_ctl(A).arm({})
                probes.get_ctl(K).arm({})
            kwa, kwk = {}, {}
            if spec.get('tracer') and op.get('trace'):
                if op['trace'] is True:
                    kwa['trace'] = kwk['trace'] = True
                else:
                    kwa['trace'] = [h for _, h in op['trace']]
                    kwk['trace'] = [c_ for c_, _ in op['trace']]
                kwa['reset'] = kwk['reset'] = True  # (so that re-specified traces never meet the known finding of C17)
                ctx.probe('traced-solve-through-aliases')
            ra, rk = both(lambda: A.solve(**S.solver_kwargs(opts), **kwa), lambda: K.solve(**S.solver_kwargs(opts), **kwk))
            ra, rk = val(ra), val(rk)
            ctx.probe('solve')
            if spec.get('tracer'):
                okt, where = _traces_equal(A, K)
                chk('solve/trace-through-alias-equals-trace-through-name', okt, {'where': where, 'trace': op.get('trace')})
        elif kind == 'near_miss':
            typo = op['typo']
            taken = set(A.__dict__['index']) | set(A.__dict__['aliases']) | set(A.__dict__['_attributes']) | set(dir(type(A)))
            if typo in taken or typo.startswith('_'):
                continue
            strict_now = bool(A.__dict__['_strict'])
            ra, rk = both(lambda: setattr(A, typo, 1), lambda: setattr(K, typo, 1))
            if strict_now:
                ctx.probe('strict-refuses-misspelt-alias-or-name')
                chk('near_miss/refused-under-strict', ra == ('exc', 'AttributeError') or ra == ('exc', 'NotImplementedError'), {'typo': typo, 'aliased': ra, 'canonical': rk})
        elif kind == 'to_dataframe':
            do_dataframe(A, K, dict(spec, aliases=[[k_, v_] for k_, v_ in al.items()], preferred=list(pref_now)), op, names, chk, ctx)
            ra = rk = ('ok', None)
        elif kind == 'contains_dir':
            try:
                listing = dir(A)
                chk('dir/lists-aliases', all(a_ in listing for a_ in A.__dict__['aliases']), None)
                comp = list(A._ipython_key_completions_())
                comp2 = list(A._ipython_key_completions_())
                chk('completions/list-variables-and-aliases', all(v_ in comp for v_ in K.__dict__['index']) and all(a_ in comp for a_ in A.__dict__['aliases']) and comp == comp2, {'first': comp[:8], 'second': comp2[:8]})
            except Exception as e:
                chk('dir/works', False, {'exc': type(e).__name__})
            ra = rk = ('ok', None)
        else:
            continue
        if kind not in ('get',):
            chk(f'{kind}/same-outcome/{path}', val(ra)[0] == val(rk)[0] and (val(ra) == val(rk) or kind not in ('solve',)), {'via': via, 'name': nm, 'aliased': val(ra), 'canonical': val(rk)})
        ok, bad = _same_state(A, K)
        chk(f'{kind}/same-effect/{path}', ok, {'via': via, 'name': nm, 'differs': bad})
        storage_ok(kind)
        if not ok:
            # resynchronise the twin so that a later, different discrepancy can still be seen
            for nm2, arr in _series(A).items():
                if nm2 in K.__dict__['index'] and isinstance(arr, np.ndarray) and arr.shape == K.__dict__['_' + nm2].shape:
                    K.__dict__['_' + nm2][:] = arr
        ctx.probe(f'path:{kind}:{path}')
        ctx.outcome(kind, f'{val(ra)[0]}:{path}')
        ctx.log(step, kind, via, nm, val(ra)[0], val(rk)[0])
        ctx.state([kind, path, val(ra)[0], [canon(v.tolist()) for v in list(_series(K).values())[:4]]])


def do_dataframe(A, K, spec, op, names, chk, ctx):
    al = dict(map(tuple, spec['aliases']))
    try:
        dfA = A.to_dataframe(use_aliases=op['use_aliases'])
    except Exception as e:
        chk('to_dataframe/works', False, {'exc': type(e).__name__, 'msg': str(e)[:200], 'use_aliases': op['use_aliases'], 'preferred': spec['preferred'], 'aliases': al})
        return
    dfK = K.to_dataframe()
    ctx.probe('to_dataframe:' + ('aliases' if op['use_aliases'] else 'plain'))
    chk('to_dataframe/column-count', dfA.shape == dfK.shape, {'aliased': list(dfA.shape), 'canonical': list(dfK.shape)})
    if dfA.shape != dfK.shape:
        return
    colsA, colsK = list(dfA.columns), list(dfK.columns)
    chk('to_dataframe/no-duplicate-columns', len(set(colsA)) == len(colsA), {'columns': colsA})
    handles = {nm: {nm} | {a for a in al if resolve(al, a) == nm} for nm in colsK}
    pref_for = {}
    for p in spec['preferred']:
        pref_for[resolve(al, p)] = p
    for j, (ca, ck) in enumerate(zip(colsA, colsK)):
        same = bool(np.array_equal(dfA.iloc[:, j].to_numpy(), dfK.iloc[:, j].to_numpy())) or bool(
            np.array_equal(dfA.iloc[:, j].to_numpy(dtype=object).astype(str), dfK.iloc[:, j].to_numpy(dtype=object).astype(str))
        )
        chk('to_dataframe/data-unchanged', same, {'column': j, 'name': ca})
        if not op['use_aliases']:
            chk('to_dataframe/plain-names', ca == ck, {'got': ca, 'want': ck})
            continue
        chk('to_dataframe/column-named-by-name-or-alias', ca in handles[ck], {'got': ca, 'variable': ck, 'allowed': sorted(handles[ck])})
        if ck in pref_for:
            ctx.probe('to_dataframe:preferred-name-applies')
            chk('to_dataframe/preferred-name-used', ca == pref_for[ck], {'got': ca, 'preferred': pref_for[ck], 'variable': ck})
