"""Multi-period workload (C05): solve() against the ordered loop of single-period solves, with a fault
(exception, non-finite value, non-convergence, interruption) planted at every period position in turn.

Schedule: {'spec': ..., 'pokes': [...], 'ops': [ {'op': 'solve', 'start': pos|None|'?absent'|'?multi', 'end': ..., 'sform': 0|1,
           'eform': 0|1, 'opts': {...}, 'plan': {tn: plan, '*': plan}, 'interrupt': None | {'seam': k} | {'line': k}} ]}

Parties: A receives solve(); B the loop of solve_t; C the loop of solve_period; R is B run to completion
without the interruption (crash-consistency reference).
"""
import numpy as np

from .. import REPO, import_fsic, probes, ref_solver, spans
from ..kernel import canon
from . import solver as S


def generate(rng, idx, tier, variant):
    parser = rng.random() < 0.25
    if parser:
        sched = S.gen_parser_schedule(rng, idx, tier)
        spec = sched['spec']
        pokes = [op for op in sched['ops'] if op['op'] == 'poke']
    else:
        spec = S.gen_spec(rng, 'solver_faults', tier)
        spec.pop('mixins', None)
        pokes = []
        if rng.random() < 0.2:
            # the extension mixins stacked on the model class in any order: solve() must still be the loop
            spec['mixins'] = rng.sample(['alias', 'tracer', 'pandas', 'progress'], rng.randint(1, 4))
    np_err = rng.choice(['default'] * 6 + ['ignore', 'warn', 'raise', 'raise'])
    spec['_allow_huge'] = np_err != 'raise'
    n, lags, leads = spec['span']['n'], spec['lags'], spec['leads']
    dup = (not parser) and n >= 4 and rng.random() < 0.08
    if dup:
        spec['span']['type'] = 'list_dup_inner'
        spec['lags'] = spec['leads'] = lags = leads = 0
    npdup = (not parser) and (not dup) and n >= 5 and rng.random() < 0.04
    if npdup:
        spec['span']['type'] = 'np_dup'
        spec['lags'] = spec['leads'] = lags = leads = 0
    if idx % 97 == 0:
        # empty span
        spec['span']['n'] = n = 0
        spec['lags'] = spec['leads'] = lags = leads = 0
        spec['init'] = {k: [] for k in spec['init']}
        pokes = []
    ops = []
    for _ in range(rng.choice([1, 1, 2])):
        faults = rng.random() < 0.75
        opts = S.gen_opts(rng, faults)
        if opts['max_iter'] > 300:
            # (four parties, every period of the range, every pass recorded: tens of thousands of passes per period are
            # left to the single-period workloads)
            opts['max_iter'] = rng.choice([255, 256, 300])
        if opts['errors'] == 'bogus':
            opts['errors'] = 'skip'
        if opts['min_iter'] > opts['max_iter'] and rng.random() < 0.7:
            opts['min_iter'] = opts['max_iter']
        opts['offset'] = rng.choice([0, 0, 0, -1, -1, 1, -2, 2])
        # range
        r = rng.random()
        lo, hi = lags, n - 1 - leads
        if n == 0:
            start = end = None
        elif r < 0.35:
            start = end = None
        elif r < 0.8 and hi >= lo:
            a, b = rng.randint(lo, hi), rng.randint(lo, hi)
            if a > b and rng.random() < 0.7:
                a, b = b, a
            start = a if rng.random() < 0.8 else None
            end = b if rng.random() < 0.8 else None
        elif r < 0.9:
            start, end = rng.choice([('?absent', None), (None, '?absent'), ('?absent', '?absent')])
        elif r < 0.95 and spec['span']['type'] == 'pd_period_q':
            start, end = rng.choice([('?multi', None), (None, '?multi')])
        else:
            start = end = rng.randint(lo, max(lo, hi)) if hi >= lo else None
        if n and (lags or leads) and not dup and not npdup and rng.random() < 0.08:
            # an explicit start inside the lag margin / end inside the lead margin: solve() must refuse those periods
            # exactly as the single-period solver does (not quietly move the range)
            if lags and (not leads or rng.random() < 0.5):
                start = rng.randrange(0, lags)
            else:
                end = rng.randint(n - leads, n - 1)
        if dup and n:
            start = rng.choice([None, 0])
            end = rng.choice([None, n - 1])
        if npdup and n:
            # the twice-occurring label as start or end: it does not resolve to a single position
            start, end = rng.choice([('?dup', None), (None, '?dup'), ('?dup', n - 1), (0, '?dup')])
        ps = lo if not isinstance(start, int) else start
        pe = hi if not isinstance(end, int) else end
        positions = list(range(ps, pe + 1)) if n else []
        # per-period plans; the run index sweeps the faulting period
        plan = {}
        interrupt = None
        if spec['kind'] == 'scripted':
            base, _ = S.gen_plan(rng, opts, spec, False, idx)
            plan['*'] = base
            if rng.random() < 0.12 and not spec.get('dtype'):
                # hooks / equations that call back into the library (copy the model, export it, evaluate an expression,
                # solve a copy, make a call that is refused): solve() and the loop meet the same callbacks
                # (a nested solve goes to the period just solved only: later periods stay as they were if this one fails)
                base['cb'] = S.gen_callbacks(rng, spec, opts, kinds=S.SAFE_CALLBACKS + ['nested_prev', 'nested_prev'])
            m = len(positions)
            if faults and m:
                slot = idx % (m + 2)
                targets = []
                if slot < m:
                    targets = [positions[slot]]
                elif slot == m + 1 and m >= 2:
                    targets = rng.sample(positions, 2)
                for tp in targets:
                    p, placed = S.gen_plan(rng, opts, spec, True, rng.randrange(10))
                    plan[str(tp)] = p
                    if 'preexisting' in placed:
                        pokes.append({'op': 'poke', 'name': rng.choice(spec['endo'] + spec['exo']), 'pos': tp, 'v': rng.choice(['nan', 'inf'])})
        r = rng.random()
        if r < 0.12:
            interrupt = {'seam': rng.randint(0, max(1, 3 * max(1, len(positions))))}
        elif r < 0.22:
            interrupt = {'line': rng.randint(1, 60 + 90 * max(1, len(positions)))}
        if n and ops and rng.random() < 0.4:
            # dirty data arriving between two solves (possibly in a period that is already solved)
            nm_ = rng.choice(spec['names'] if spec['kind'] == 'parser' else (spec['endo'] + spec['exo']))
            ops.append({'op': 'poke', 'name': nm_, 'pos': rng.randrange(n), 'v': rng.choice(['nan', 'inf', '-inf', 0.0, 1.0])})
        if n and rng.random() < 0.05 and not dup and not npdup:  # (a repeated label at span[lags] would name two periods)
            # the instances' own lag / lead lengths raised after construction: solve()'s default range and the loop over
            # the periods the instance can be solved for must still be the same thing
            ops.append({'op': 'widen_margins', 'dl': rng.choice([0, 1, 1, 2]), 'dd': rng.choice([0, 1, 1, 2])})
        if n and rng.random() < 0.3:
            # history before the solve: every party is replaced by a reindexed version or by a copy of itself
            if rng.random() < 0.7 and not dup and not npdup:
                ops.append({'op': 'reindex', 'shift': rng.choice([-2, -1, 1, 2, 3]), 'grow': rng.choice([0, 0, 1, 2])})
            else:
                ops.append({'op': 'copy', 'route': rng.choice(['copy', 'deepcopy'])})
            if ops[-1]['op'] == 'reindex':
                # positions below refer to the span as it is when the solve runs
                n = n + ops[-1]['grow']
                lo, hi = lags, n - 1 - leads
                if isinstance(start, int):
                    start = min(start, n - 1)
                if isinstance(end, int):
                    end = min(end, n - 1)
        ops.append(
            {
                'op': 'solve',
                'start': start,
                'end': end,
                'sform': rng.choice([0, 0, 1]),
                'eform': rng.choice([0, 0, 1]),
                'opts': opts,
                'plan': plan,
                'interrupt': interrupt,
            }
        )
        mix = spec.get('mixins') or []
        if 'progress' in mix:
            ops[-1]['pb'] = rng.choice([None, False, True, True])
        if 'tracer' in mix and rng.random() < 0.5:
            ops[-1]['trace'] = True
    spec.pop('_allow_huge', None)
    sched = {'spec': spec, 'pokes': pokes, 'ops': ops, 'np_err': np_err}
    if rng.random() < 0.08 and spec['span']['n'] >= 3 and not dup and not npdup:
        # earlier in the same program the class was used on ANOTHER span: a plain list with the same length and the same
        # first and last labels but other labels in between (what the library may have learnt from that use - at class or
        # module level - is not this object's business)
        sched['prelude'] = rng.choice(['other-interior', 'other-interior', 'reversed-interior'])
    return sched


shrink_lists = ['ops', 'pokes']


def _label(spec, span, x, form):
    if x is None:
        return None
    if x == '?absent':
        return spans.absent_label(spec['span'])
    if x == '?multi':
        return str(span[0].year)  # a year against a quarterly PeriodIndex: several positions
    if x == '?dup':
        return span[1].item() if hasattr(span[1], 'item') else span[1]  # occurs twice in an 'np_dup' span
    return spans.label_forms(spec['span'], span, x, form)


def _snap(m):
    """The model's series. The tracer's own record (an object array of Trace logs, one per period) is compared by content
    where tracing is on, not cell by cell."""
    s_ = ref_solver.snapshot(m)
    s_.pop('trace', None)
    return s_


def _traces(m):
    from ..obs import obs_trace

    arr = m.__dict__.get('_trace')
    if arr is None:
        return None
    return [obs_trace(x) if type(x).__name__ == 'Trace' else None for x in arr.tolist()]


def _apply_pokes(m, pokes, n):
    for op in pokes:
        if op['name'] in m.__dict__['index'] and 0 <= op['pos'] < n:
            m.__dict__['_' + op['name']][op['pos']] = probes.fval(op['v'])


def _outcome(fn):
    try:
        return {'kind': 'return', 'value': fn()}
    except probes.SimInterrupt as e:
        return {'kind': 'interrupt', 'exc': e}
    except Exception as e:
        return {'kind': 'raise', 'exc': e}


def _cls(out):
    return out['kind'] if out['kind'] != 'raise' else type(out['exc']).__name__


def _eq_label(a, b):
    try:
        return bool(a == b)
    except Exception:
        return False


def execute(schedule, ctx):
    fsic = import_fsic()
    spec = schedule['spec']
    ctx.np_err = schedule.get('np_err', 'default')
    parties = {}
    for who in 'ABCR':
        try:
            m, span, endo, check, exo = S.build(fsic, spec, ctx)
        except S.BuildFailed:
            ctx.log('build-failed')
            return
        _apply_pokes(m, schedule.get('pokes', []), len(span))
        parties[who] = m
    A, B, C, R = (parties[k] for k in 'ABCR')
    n = len(span)
    if schedule.get('prelude') and n >= 3:
        labs_ = list(spans.elements(span))
        inner_ = list(reversed(labs_[1:-1])) if schedule['prelude'] == 'reversed-interior' and n >= 4 else [f'zz{j_}' for j_ in range(n - 2)]
        try:
            other_ = probes.new_scripted_instance(type(A), [labs_[0]] + inner_ + [labs_[-1]], {}, **S._dtype_kw(spec))
            other_.solve(failures='ignore', errors='ignore')
        except Exception:  # noqa: BLE001
            pass
        ctx.probe('prelude:class-used-earlier-on-another-span')
    lags, leads = spec['lags'], spec['leads']
    chk = lambda sig, ok, detail=None: ctx.check('C05', sig, ok, detail)  # noqa: E731
    for k, nfire in ((k, 1) for k in ()):
        pass
    ctx.probe('span:' + spec['span']['type'])

    spec = dict(spec, span=dict(spec['span']))
    for step, op in enumerate(schedule['ops']):
        ctx.step = step
        if op['op'] == 'poke':
            for m in (A, B, C, R):
                _apply_pokes(m, [op], n)
            ctx.fault('preexisting-nonfinite' if isinstance(op['v'], str) else 'data-corruption')
            ctx.log(step, 'poke')
            ctx.outcome('poke', 'ok')
            continue
        if op['op'] == 'widen_margins':
            nl_, nd_ = lags + op['dl'], leads + op['dd']
            if (op['dl'] or op['dd']) and nl_ + nd_ + 1 <= n:
                for m in (A, B, C, R):
                    m.lags, m.leads = nl_, nd_
                lags, leads = nl_, nd_
                spec['lags'], spec['leads'] = nl_, nd_
                ctx.probe('history:instance-lags-leads-raised')
            ctx.log(step, 'widen_margins', lags, leads)
            ctx.outcome('widen_margins', 'ok')
            continue
        if op['op'] in ('reindex', 'copy'):
            import copy as _copy

            if n == 0:
                continue
            try:
                if op['op'] == 'reindex':
                    spec['span']['origin'] = spec['span'].get('origin', 0) + op['shift']
                    spec['span']['n'] = n + op.get('grow', 0)
                    made = [m.reindex(spans.make_span(spec['span']), fill_value=0.5) for m in (A, B, C, R)]
                    ctx.probe('history:reindex-before-solve')
                else:
                    made = [m.copy() if op['route'] == 'copy' else _copy.deepcopy(m) for m in (A, B, C, R)]
                    ctx.probe('history:copy-before-solve')
            except Exception as e_:
                # (a well-formed copy / reindex onto a span of the same kind: C11 / C12 own the clause, the history ends here)
                chk('history/' + op['op'] + '-of-a-well-formed-model-failed', False, {'exc': type(e_).__name__, 'msg': str(e_)[:160], 'span': spec['span']})
                return
            A, B, C, R = made
            span = A.__dict__['span']
            n = len(span)
            ctx.log(step, op['op'])
            ctx.outcome(op['op'], 'ok')
            continue
        opts = op['opts']
        start_l = _label(spec, span, op['start'], op.get('sform', 0)) if n else None
        end_l = _label(spec, span, op['end'], op.get('eform', 0)) if n else None
        snap = _snap(A)
        for m in (A, B, C, R):
            probes.get_ctl(m).arm(op.get('plan'))
        intr = op.get('interrupt')

        # ---- A: the multi-period call (possibly interrupted)
        extra = {'trace': True, 'reset': True} if op.get('trace') else {}
        extra_A = dict(extra)
        if op.get('pb') is not None:
            extra_A['progress_bar'] = op['pb']  # consumed by the period iterator of solve(); the loops have none
            ctx.probe('progress-bar-keyword:' + str(op['pb']))
        if extra:
            ctx.probe('traced-solve')

        def call_A():
            return A.solve(start=start_l, end=end_l, **S.solver_kwargs(opts), **extra_A)

        lb = None
        if intr and 'seam' in intr:
            probes.get_ctl(A).budget = intr['seam']
            outA = _outcome(call_A)
            probes.get_ctl(A).budget = None
        elif intr and 'line' in intr:
            lb = probes.LineBudget([REPO + '/fsic'], limit=intr['line'], mode='interrupt')
            outA = _outcome(lambda: lb.run(call_A))
        else:
            outA = _outcome(call_A)
        postA = _snap(A)
        if outA['kind'] == 'interrupt':
            # An asynchronous exception can land on the bytecode boundary just before a `with` block's normal-exit call
            # (CPython leaves that window open for KeyboardInterrupt too), so fsic's catch_warnings block may not have
            # restored the process-wide filter list. The other parties are separate experiments: give them the run's
            # pinned global state again. (Recorded, not asserted: the property does not mention it.)
            import warnings as _w

            from .. import kernel as _k

            if not _w.filters or _w.filters[0][0] != 'ignore' or len(_w.filters) != 1:
                ctx.probe('interrupt-left-warning-filters-changed')
            _k.pin_globals(ctx.np_err)
            ctx.fault('interrupt-seam' if 'seam' in intr else 'interrupt-line')
            if lb is not None and lb.where:
                ctx.probe(f'interrupt-at:{lb.where[0]}:{lb.where[1]}')
        for what_, res_ in probes.get_ctl(A).callbacks:
            ctx.fault('callback-into-library' if res_ == 'ok' else 'callback-into-library-raised')
            ctx.probe('callback:' + what_)
        S.count_faults(ctx, probes.get_ctl(A).log, opts)
        ctx.count('passes', sum(1 for r in probes.get_ctl(A).log if r['hook'] == 'eval'))
        ctx.count('steps', len(probes.get_ctl(A).log))

        # ---- special inputs
        if n == 0:
            ctx.probe('empty-span')
            if outA['kind'] != 'interrupt':
                ok = _cls(outA) == 'SolutionError' or (opts['min_iter'] > opts['max_iter'] and _cls(outA) == 'ValueError')
                chk('empty-span/SolutionError', ok, {'got': _cls(outA)})
            ctx.outcome('solve', 'empty-span:' + _cls(outA))
            ctx.log(step, 'solve', 'empty-span', _cls(outA))
            continue
        bad_label = op['start'] in ('?absent', '?multi', '?dup') or op['end'] in ('?absent', '?multi', '?dup')
        if opts['min_iter'] > opts['max_iter']:
            ctx.probe('min_iter>max_iter')
            if not (outA['kind'] == 'interrupt'):
                chk('reject/min_iter>max_iter', _cls(outA) in ('ValueError', 'KeyError') if bad_label else _cls(outA) == 'ValueError', {'got': _cls(outA)})
                chk('reject/nothing-changes', not ref_solver.diff_cells(snap, postA), {'changed': ref_solver.diff_cells(snap, postA)[:6]})
            ctx.outcome('solve', 'rejected:' + _cls(outA))
            ctx.log(step, 'solve', 'rejected', _cls(outA))
            continue
        if bad_label:
            ctx.probe('unknown-label' if '?absent' in (op['start'], op['end']) else 'twice-occurring-label' if '?dup' in (op['start'], op['end']) else 'multi-position-label')
            if outA['kind'] != 'interrupt':
                chk('bad-label/KeyError', _cls(outA) == 'KeyError', {'got': _cls(outA), 'start': repr(start_l), 'end': repr(end_l)})
                chk('bad-label/nothing-solved', not ref_solver.diff_cells(snap, postA) and not probes.get_ctl(A).log, {'changed': ref_solver.diff_cells(snap, postA)[:6]})
            ctx.outcome('solve', 'bad-label:' + _cls(outA))
            ctx.log(step, 'solve', 'bad-label', _cls(outA))
            continue

        ps = lags if op['start'] is None else op['start']
        pe = n - 1 - leads if op['end'] is None else op['end']
        positions = list(range(ps, pe + 1))
        if not positions:
            ctx.probe('start>end')
        if op['start'] is not None and op['start'] == op['end']:
            ctx.probe('start==end')

        # ---- R: the loop run to completion of whatever it can (no interruption): crash-consistency reference
        outR, flagsR, failR = _loop(R, positions, opts, None, 'solve_t', spec, span, judge=(ctx, endo, check, exo), extra=extra)
        # ---- B, C: the loops, with the same interruption budget where it is a seam budget
        outB, flagsB, failB = _loop(B, positions, opts, intr if intr and 'seam' in intr else None, 'solve_t', spec, span, extra=extra)
        outC, flagsC, failC = _loop(C, positions, opts, intr if intr and 'seam' in intr else None, 'solve_period', spec, span, extra=extra)
        postB, postC, postR = _snap(B), _snap(C), _snap(R)

        nested_prev = any(cb.get('what') == 'nested_solve' for p_ in (op.get('plan') or {}).values() for cb in (p_ or {}).get('cb', ()))
        line_intr = outA['kind'] == 'interrupt' and 'line' in intr
        unique_labels = spec['span']['type'] != 'list_dup_inner'
        if not unique_labels:
            ctx.probe('repeated-label-inside-range')
        if not line_intr:
            # solve() == loop of solve_t == loop of solve_period, in effect and in result
            chk('twin/outcome-class', _cls(outA) == _cls(outB), {'solve': _cls(outA), 'loop': _cls(outB), 'opts': opts})
            dAB = ref_solver.diff_cells(postA, postB)
            chk('twin/effect-solve-vs-loop', not dAB, {'differs': dAB[:8], 'opts': opts, 'positions': positions})
            if unique_labels:  # (a repeated label cannot be addressed by solve_period at all)
                chk('twin/solve_period-outcome-class', _cls(outC) == _cls(outB), {'solve_period': _cls(outC), 'solve_t': _cls(outB), 'span': spec['span']['type']})
                dCB = ref_solver.diff_cells(postC, postB)
                chk('twin/effect-solve_period-vs-solve_t', not dCB, {'differs': dCB[:8], 'span': spec['span']['type']})
            la = [(r['hook'], r['tn'], r['k'], r['iteration']) for r in probes.get_ctl(A).log]
            lb_ = [(r['hook'], r['tn'], r['k'], r['iteration']) for r in probes.get_ctl(B).log]
            chk('twin/same-seam-history', la == lb_, {'solve': la[:12], 'loop': lb_[:12]})
            if extra and outA['kind'] != 'interrupt':
                # the keywords solve() passes on reach every period: what was traced is what the loop traces
                # (each call rewrites the records of its own periods - reset=True - so only those are compared: an
                # earlier interrupted call may have left the parties' other records apart)
                ta, tb = _traces(A), _traces(B)
                done = [t for t in positions if failB is None or t <= failB]  # (the periods the call got to)
                chk('twin/traces-solve-vs-loop', [ta[t] for t in done] == [tb[t] for t in done], {'positions': done})
            if outA['kind'] == 'return':
                v = outA['value']
                ok_shape = isinstance(v, tuple) and len(v) == 3
                chk('result/triple', ok_shape, {'got': type(v).__name__})
                if ok_shape:
                    labels, idxs, flags = v
                    want_labels = [span[t] for t in positions]
                    chk('result/labels', len(labels) == len(want_labels) and all(_eq_label(a, b) for a, b in zip(labels, want_labels)), {'got': [str(x) for x in labels], 'want': [str(x) for x in want_labels]})
                    chk('result/positions', [int(i) for i in idxs] == positions, {'got': [str(i) for i in idxs], 'want': positions})
                    chk('result/flags', list(flags) == flagsB and all(isinstance(f, (bool, np.bool_)) for f in flags), {'got': canon(list(flags)), 'want': flagsB})
                    resolved_later = any(cb.get('what') == 'nested_solve' for p_ in (op.get('plan') or {}).values() for cb in (p_ or {}).get('cb', ()))
                    for t, f in zip(positions, flags):
                        if resolved_later:
                            break  # (a hook re-solved a period after its flag was returned: the flag is the earlier solve's)
                        chk('result/flag-true-iff-solved', bool(f) == (postA['status'][t] == '.'), {'t': t, 'flag': bool(f), 'status': str(postA['status'][t])})
            if outA['kind'] == 'raise' and outB['kind'] == 'raise':
                chk('twin/exception-class', type(outA['exc']) is type(outB['exc']), None)
                ctx.probe('fault-at:' + ('first' if failB == positions[0] else 'last' if failB == positions[-1] else 'middle'))

        # ---- containment (crash consistency): some period p splits the state into R-prefix and untouched suffix
        if outA['kind'] in ('raise', 'interrupt') and positions:
            # (where a hook re-solves the period before its own, two periods are in flight at once)
            ok, p = _containment(snap, postA, postR, positions, n, slack=1 if nested_prev else 0)
            sig = 'containment/' + ('interrupt' if outA['kind'] == 'interrupt' else 'exception')
            chk(sig, ok, {'positions': positions, 'outcome': _cls(outA), 'status': [str(x) for x in postA['status'].tolist()], 'ref-status': [str(x) for x in postR['status'].tolist()]})
            if outA['kind'] == 'raise' and not line_intr and failB is not None:
                later = [c for c in ref_solver.diff_cells(snap, postA) if c[1] > failB]
                chk('containment/later-periods-untouched', not later, {'failing': failB, 'changed': later[:8]})
                earlier = [c for c in ref_solver.diff_cells(postA, postR) if 0 <= c[1] < failB]
                chk('containment/earlier-periods-complete', not earlier, {'failing': failB, 'differs': earlier[:8]})
            if outA['kind'] == 'interrupt':
                ctx.probe('interrupt:' + ('before-first-pass' if not probes.get_ctl(A).log else 'after-some-seam-calls'))
        if outA['kind'] == 'return' and positions:
            # every period of the range was visited, in order, and nothing outside the range changed
            outside = [c for c in ref_solver.diff_cells(snap, postA) if not (positions[0] - (1 if nested_prev else 0) <= c[1] <= positions[-1])]
            chk('range/nothing-outside-changes', not outside, {'changed': outside[:8], 'positions': positions})
            visited = [t for t in positions if postA['status'][t] != snap['status'][t] or postA['iterations'][t] != snap['iterations'][t]]
            seen = []
            for r in probes.get_ctl(A).log:
                if r['tn'] not in seen:
                    seen.append(r['tn'])
            chk('range/visited-in-span-order', seen == [t for t in positions if t in seen] and set(seen) <= set(positions), {'seen': seen, 'positions': positions})
            del visited
        if outA['kind'] == 'return' and not positions:
            chk('empty-range/nothing-changes', not ref_solver.diff_cells(snap, postA), None)
            chk('empty-range/empty-triple', outA['value'] == ([], [], []), {'got': canon(outA['value'])})

        ctx.log(step, 'solve', op['start'], op['end'], _cls(outA), [str(x) for x in postA['status'].tolist()], postA['iterations'].tolist(), canon(outA.get('value')) if outA['kind'] == 'return' else None)
        ctx.outcome('solve', f"{_cls(outA)}:{len(positions)}p:{'intr' if intr else ''}")
        ctx.state([_cls(outA), [str(x) for x in postA['status'].tolist()], opts['errors'], opts['failures'], bool(intr)])
        # bring the parties back in step for the next operation (B, C, R follow A)
        for m in (B, C, R):
            for nm, arr in postA.items():
                m.__dict__['_' + nm][:] = arr


def _loop(m, positions, opts, intr, how, spec, span, judge=None, extra=None):
    extra = extra or {}
    ctl = probes.get_ctl(m)
    ctl.budget = intr['seam'] if intr else None
    flags = []
    out = None
    fail = None
    for t in positions:
        if judge is not None:
            # "the failing period carries the status its policy prescribes": each period of the reference loop is judged
            # by the per-period state machine (tagged C05 here; C02/C06 own the single-period clauses)
            ctx, endo, check, exo = judge
            snap = _snap(m)
            n0 = len(ctl.log)
            nr0 = len(ctl.raised)
            o = _outcome(lambda: m.solve_t(t, **S.solver_kwargs(opts), **extra))
            if o['kind'] != 'interrupt':
                post_ = _snap(m)
                S.neutralise_callbacks(ctl.plan, snap, post_, None, t)
                call = {
                    'opts': opts, 'n': len(span), 't': t, 'endo': endo, 'check': check, 'exo': exo, 'snap': snap,
                    'post': post_, 'log': ctl.log[n0:], 'raised': ctl.raised[nr0:],
                    'outcome': {'kind': 'return', 'value': o['value']} if o['kind'] == 'return' else {'kind': 'raise', 'exc': o['exc']},
                    'shorter_than_script': S.shorter_than_script(spec), 'scripted': spec['kind'] == 'scripted', 'feasible': spec['lags'] <= t <= len(span) - 1 - spec['leads'], 'np_err': ctx.np_err,
                }
                ref_solver.judge_single(call, lambda sig, ok, detail=None: ctx.check('C05', 'period-policy/' + sig, ok, detail), None)
            if o['kind'] != 'return':
                out = o
                fail = t
                break
            flags.append(bool(o['value']))
            continue
        if how == 'solve_t':
            o = _outcome(lambda: m.solve_t(t, **S.solver_kwargs(opts), **extra))
        else:
            o = _outcome(lambda: m.solve_period(span[t], **S.solver_kwargs(opts), **extra))
        if o['kind'] != 'return':
            out = o
            fail = t
            break
        flags.append(bool(o['value']))
    ctl.budget = None
    if out is None:
        out = {'kind': 'return', 'value': None}
    return out, flags, fail


def _containment(snap, postA, postR, positions, n, slack=0):
    """Is there a period p such that A == R on periods < p (- slack) and A == pre-call snapshot on periods > p?"""
    dR = ref_solver.diff_cells(postA, postR)
    dS = ref_solver.diff_cells(snap, postA)
    if any(c[1] < 0 for c in dR + dS):
        return False, None
    for p in positions + [positions[-1] + 1]:
        if all(c[1] >= p - slack for c in dR) and all(c[1] <= p for c in dS):
            return True, p
    return False, None
