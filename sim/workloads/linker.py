"""Linker workload (C08): a scripted linker over 0-4 scripted submodels, judged by R-linker over the global seam
history, plus the linker-of-one == bare-model twin.

Schedule: {'spec': {'span', 'subs': {id: scripted spec}, 'own': {'endo', 'exo', 'check'}}, 'ops': [
    {'op': 'solve_t'|'solve', 't', 'select': None|[ids], 'opts', 'plans': {id: plan}, 'lplan': {...}},
    {'op': 'construct-unequal-spans'}, {'op': 'twin', ...} ]}
"""
import numpy as np

from .. import import_fsic, probes, ref_solver, scripts, spans
from ..kernel import canon
from . import solver as S

SPANS = ['range', 'list_int', 'list_str', 'list_mixed', 'list_numstr']
IDS = ['A', 'B', 'C', 'D']
# id pools (each in sorted order, so that insertion order survives any key-sorted serialisation); the later pools hold ids
# that differ only by case, and an unknown id may then be a near miss of several of them
ID_POOLS = [IDS, IDS, IDS, ['UK', 'US', 'uk', 'us'], ['UK', 'Uk', 'uK', 'uk'], ['M1', 'm1', 'm2', 'm3']]


def _unknown_id(rng, ids):
    if rng.random() < 0.2:
        return rng.choice([7, 0, 2.5])  # (an id is any hashable: an unknown one need not be a string)
    cands = ['nope']
    for s_ in ids:
        for v in (s_.lower(), s_.upper(), s_.swapcase(), s_.capitalize(), s_ + '_'):
            if v not in ids:
                cands.append(v)
    return rng.choice(cands)


def generate(rng, idx, tier, variant):
    n_sub = rng.choice([0, 1, 1, 2, 2, 3, 4])
    n = rng.randint(1, 7)
    sp = {'type': rng.choice(SPANS), 'n': n, 'origin': rng.choice([0, 1, 5])}
    subs = {}
    pool = rng.choice(ID_POOLS)
    if rng.random() < 0.006:
        n_sub, pool = 12, [f'R{j:02d}' for j in (7, 3, 11, 0, 5, 9, 1, 10, 2, 8, 4, 6)]  # a dozen submodels, ids not in sorted order
    for sid in pool[:n_sub]:
        ms = S.gen_spec(rng, 'solver', tier)
        ms['span'] = sp
        ms['lags'] = rng.choice([0, 0, 1, 2])
        ms['leads'] = rng.choice([0, 0, 1])
        subs[sid] = ms
    L = max([0] + [m['lags'] for m in subs.values()])
    Ld = max([0] + [m['leads'] for m in subs.values()])
    n = max(n, L + Ld + 1)
    sp['n'] = n
    for ms in subs.values():
        ms['init'] = {nm: [rng.choice(S.DYADS) for _ in range(n)] for nm in ms['endo'] + ms['exo']}
    own_check = rng.choice([['L0'], ['L0'], [], ['L0', 'LX']])
    spec = {'span': sp, 'subs': subs, 'dtype': rng.choice(['float'] * 6 + ['float32', 'int']), 'own': {'endo': ['L0'], 'exo': ['LX'], 'check': own_check}, 'init': {'L0': [rng.choice(S.DYADS) for _ in range(n)], 'LX': [rng.choice(S.DYADS) for _ in range(n)]}}
    ops = []
    if rng.random() < 0.12 and n_sub >= 2:
        ops.append({'op': 'construct-unequal-spans', 'which': rng.choice(pool[1:n_sub]), 'how': rng.choice(['longer', 'shifted', 'other-labels', 'permuted', 'repeated', 'interior', 'interior', 'array-partial', 'array-partial'])})
    for _ in range(rng.choice([1, 1, 2, 3])):
        opts = S.gen_opts(rng, False)
        opts['errors'] = 'raise'
        if opts['max_iter'] > 300:
            opts['max_iter'] = rng.choice([255, 256, 300, 1000])  # (every iteration drives every submodel and hook here)
        if opts['min_iter'] > opts['max_iter']:
            opts['min_iter'] = opts['max_iter']
        opts['tol'] = rng.choice([1e-10, 2.0**-10, 0.5, 1.0, 2.0, 4.0, 0, 2.0**-30])
        tn = rng.randint(L, n - 1 - Ld)
        r = rng.random()
        opts['offset'] = 0 if r < 0.6 else rng.choice([-1, 1, -2, 2]) if r < 0.9 else rng.choice([n, -n - 1])
        ids = list(subs)
        r = rng.random()
        if r < 0.45 or not ids:
            select = None
        elif r < 0.7:
            select = rng.sample(ids, rng.randint(0, len(ids)))
        elif r < 0.9:
            select = list(ids)
            rng.shuffle(select)
        else:
            select = rng.sample(ids, rng.randint(0, len(ids))) + [_unknown_id(rng, ids)]
            rng.shuffle(select)
        plans = {}
        for sid, ms in subs.items():
            p, _ = S.gen_plan(rng, opts, ms, False, idx)
            p.pop('before', None)
            if rng.random() < 0.06 and p['passes'] and ms['endo']:
                # a non-finite value in a submodel's check variable: nothing is prescribed for it in a linker except
                # that a period holding one has not 'moved by less than tol' and so cannot be declared solved
                kf = rng.randrange(len(p['passes']))
                v = [None] * len(ms['endo'])
                v[rng.randrange(len(v))] = rng.choice(['nan', 'nan', 'inf'])
                for kk in range(kf, len(p['passes'])):
                    p['passes'][kk] = {'a': 'set', 'v': v}
            plans[sid] = {'*': p}
        # linker's own equations in the hooks: move its own variable, and cross-link submodels
        lplan = {'eb': [], 'ea': []}
        for k in range(opts['max_iter'] + 1):
            for hk in ('eb', 'ea'):
                r = rng.random()
                if r < 0.5:
                    lplan[hk].append({'a': 'noop'})
                elif r < 0.75:
                    lplan[hk].append({'a': 'delta', 'd': S.gen_deltas(rng, opts['tol'], 1, rng.choice(['conv', 'conv', 'move', 'exact']))})
                elif len(ids) >= 1:
                    a, b = rng.choice(ids), rng.choice(ids)
                    lplan[hk].append({'a': 'link', 'src': a, 'sv': rng.choice(subs[a]['endo'] + subs[a]['exo']), 'dst': b, 'dv': rng.choice(subs[b]['exo'] or subs[b]['endo']), 'c': rng.choice([0.0, 0.0, 0.25])})
                    if rng.random() < 0.35:
                        # the hook writes whatever the selection is - also into a check variable of a submodel that is
                        # not being solved, which then moves every iteration and must not hold the others up
                        lplan[hk][-1].update({'any': True, 'dv': rng.choice(subs[b]['endo'] or subs[b]['exo']), 'c': rng.choice([0.25, 1.0, 3.0]), 'acc': True})
                else:
                    lplan[hk].append({'a': 'noop'})
        if rng.random() < 0.15 and 'nope' not in (select or []) and not any(x not in ids for x in (select or [])):
            # the linker's hooks call back into the library while the joint solve is under way (re-entrant use)
            hk = rng.choice(['before', 'eb', 'eb', 'ea', 'ea', 'after'])
            what = rng.choice(['rebind', 'rebind', 'nested_next', 'nested_next', 'nested_other', 'swap', 'add_submodel', 'copy', 'export'])
            cb = {'a': 'cb', 'what': what, 'via': rng.choice(['attr', 'item', 'replace_values'])}
            if hk in ('before', 'after'):
                lplan[hk] = [cb]
            else:
                kk = rng.randrange(max(1, min(len(lplan[hk]), 3)))
                while len(lplan[hk]) <= kk:
                    lplan[hk].append({'a': 'noop'})
                lplan[hk][kk] = cb
        op = {'op': 'solve_t', 't': tn - n if rng.random() < 0.3 else tn, 'select': select, 'opts': opts, 'plans': plans, 'lplan': lplan}
        r_ = rng.random()
        if r_ < 0.25:
            op['op'] = 'solve'
        elif r_ < 0.4:
            op['op'] = 'solve_period'
        if rng.random() < 0.12 and opts['max_iter'] >= 1 and not any(x not in ids for x in (select or [])):
            # an exception out of user code part-way through the joint iteration (a linker hook, or one submodel's
            # evaluation); nothing is prescribed for that call beyond the frame, but whatever it leaves behind must not
            # show in the next, well-formed call - often the very same call again
            import copy as _copy

            bad = _copy.deepcopy(op)
            where = rng.choice(['eb', 'ea'] + list(ids))
            kf = rng.randint(1, max(1, min(opts['max_iter'], 3)))
            bad['fault'] = {'where': where, 'k': kf, 'exc': rng.choice(['InjectedError', 'ZeroDivisionError', 'KeyError', 'fsic.SolutionError'])}
            ops.append(bad)
            if rng.random() < 0.3:
                ops.append({'op': 'copy', 'route': rng.choice(['copy', 'copy.copy', 'deepcopy'])})
            if rng.random() < 0.5:
                op = _copy.deepcopy(op)
                op['op'] = rng.choice(['solve_t', 'solve_t', 'solve', 'solve_period'])
                if op['op'] != 'solve_t':
                    op['t'] = tn
        ops.append(op)
        r = rng.random()
        if r < 0.15:
            ops.append({'op': 'copy', 'route': rng.choice(['copy', 'copy.copy', 'deepcopy'])})
        elif r < 0.27:
            ops.append({'op': 'rebind', 'who': rng.choice(['_'] + ids), 'k': rng.randrange(4)})
        elif r < 0.36 and ids:
            ops.append({'op': 'grow_endogenous', 'who': rng.choice(['_'] + ids)})
        elif r < 0.42 and ids:
            ops.append({'op': 'replace_submodel', 'who': rng.choice(ids)})
        elif r < 0.50 and ids:
            # a submodel's (or the linker's) own convergence-check list edited after construction
            ops.append({'op': 'edit_check', 'who': rng.choice(['_'] + ids + ids), 'how': rng.choice(['append', 'remove']), 'k': rng.randrange(4)})
    if rng.random() < 0.5:
        # linker-of-one twin against the bare model
        ms = S.gen_spec(rng, 'solver', tier)
        ms['span'] = sp
        ms['lags'] = ms['leads'] = 0
        if rng.random() < 0.3:
            # a model with lags / leads, asked for any period of the span - also one it cannot be solved for: the linker
            # refuses where the model refuses
            ms['lags'], ms['leads'] = rng.choice([(1, 0), (0, 1), (2, 1), (1, 1)])
        ms['init'] = {nm: [rng.choice(S.DYADS) for _ in range(n)] for nm in ms['endo'] + ms['exo']}
        opts = S.gen_opts(rng, False)
        opts['errors'] = 'raise'
        if opts['min_iter'] > opts['max_iter']:
            opts['min_iter'] = opts['max_iter']
        opts['tol'] = rng.choice([1e-10, 2.0**-10, 0.5, 1.0, 2.0, 4.0, 2.0**-30])
        opts['max_iter'] = rng.choice([1, 2, 3, 5, 8, 30, 60])
        opts['min_iter'] = min(opts['min_iter'], opts['max_iter'])
        opts['offset'] = rng.choice([0, 0, -1, 1])
        kind = rng.choice(['scripted', 'scripted', 'half'])
        if kind == 'half':
            plan = {'passes': [], 'default': {'a': 'half', 'c': [rng.choice(S.DYADS) for _ in ms['endo']]}}
        else:
            plan, _ = S.gen_plan(rng, opts, ms, False, idx)
            plan.pop('before', None)
        ops.append({'op': 'twin', 'model': ms, 't': rng.randrange(n), 'opts': opts, 'plan': {'*': plan}, 'entry': rng.choice(['solve_t', 'solve'])})
    if rng.random() < 0.3:
        # the same twin over models built by the parser from scripts (their equations are real: no plan), and a linker over
        # two of them whose lag / lead lengths must be the maxima of what the scripts read
        progs = [scripts.gen_program(rng, max_eq=3, max_lag=2, max_lead=2) for _ in range(2)]
        models = []
        for prog in progs:
            build = probes.build_options(rng, prog)
            lg, ld = probes.expected_lags_leads(prog['lags'], prog['leads'], build)
            models.append({'kind': 'parser', 'script': prog['script'], 'names': prog['names'], 'endo': prog['endo'], 'declared': prog['declared'], 'lags': lg, 'leads': ld, 'lags_script': prog['lags'], 'leads_script': prog['leads'], 'build': build, 'init': scripts.gen_data(rng, prog, max(n, lg + ld + 1))})
        opts = S.gen_opts(rng, False)
        opts.update(errors=rng.choice(['raise', 'ignore', 'skip']), failures=rng.choice(['raise', 'ignore']), tol=rng.choice([1e-10, 1e-6, 2.0**-10]), max_iter=rng.choice([1, 2, 5, 30, 100]), offset=rng.choice([0, 0, -1, 1]))
        opts['min_iter'] = min(opts['min_iter'], opts['max_iter'])
        ops.append({'op': 'parser_twin', 'models': models, 't': rng.randrange(64), 'opts': opts, 'entry': rng.choice(['solve_t', 'solve', 'solve_all'])})
    return {'spec': spec, 'ops': ops}


def _linker_callback(self, t, tn, act, ctl, kw, rec):
    """A linker hook that calls back into the library while the joint solve of period t is under way."""
    d = self.__dict__
    n = len(d['span'])
    subs = d['submodels']
    sel = [s_ for s_ in (kw.get('submodels') or []) if s_ in subs]
    what = act['what']
    quiet = dict(max_iter=2, tol=1.0, failures='ignore')
    res = 'ok'
    ctl.depth += 1
    probes.NESTING[0] += 1
    try:
        if what == 'rebind':
            # whole series replaced by equal lists: new array objects under the same names
            targets = [(self, nm) for nm in d['check']] + [(subs[s_], nm) for s_ in sel for nm in subs[s_].__dict__['check']]
            for obj, nm in targets:
                vals = obj.__dict__['_' + nm].tolist()
                if act.get('via') == 'replace_values':
                    obj.replace_values(**{nm: vals})
                elif act.get('via') == 'item':
                    obj[nm] = vals
                else:
                    setattr(obj, nm, vals)
        elif what == 'nested_next':
            # a look-ahead solve of the next period from inside this one
            if tn + 1 < n - d['leads'] and tn + 1 >= d['lags']:
                rec['nested_period'] = tn + 1
                self.solve_t(tn + 1, submodels=list(sel), **quiet)
        elif what == 'nested_other':
            # the same period solved for the submodels outside the selection (a satellite block)
            others = [s_ for s_ in subs if s_ not in sel]
            if others and rec['hook'] in ('after', 'ea'):
                rec['nested_other'] = others
                self.solve_t(t, submodels=others, **quiet)
        elif what == 'swap':
            # a checkpoint: the hook keeps the submodel object as it is and lets the linker go on with a copy
            if sel:
                sid = sel[0]
                old = subs[sid]
                new = old.copy()
                oc, nc_ = probes.get_ctl(old), probes.get_ctl(new)
                nc_.plan, nc_.bus, nc_.tag, nc_.count, nc_.log, nc_.raised = oc.plan, oc.bus, oc.tag, oc.count, oc.log, oc.raised
                subs[sid] = new
                rec['swapped'] = (sid, old, {nm: old.__dict__['_' + nm].copy() for nm in old.__dict__['index']})
        elif what == 'add_submodel':
            # another model joins the linker while a call is under way: this call was not asked to solve it
            if subs and 'late' not in subs:
                first = next(iter(subs.values()))
                late = type(first)(d['span'])
                probes.attach_ctl(late)
                subs['late'] = late
                rec['added'] = 'late'
        elif what == 'copy':
            self.copy()
        elif what == 'export':
            self.to_dataframes()
            self.values  # noqa: B018
            self.sizes  # noqa: B018
    except probes.SimInterrupt:
        raise
    except Exception as e:
        res = type(e).__name__
    finally:
        probes.NESTING[0] -= 1
        ctl.depth -= 1
    ctl.callbacks.append((what, res))


def make_linker_class(fsic, own):
    """A scripted linker: its four hooks log to the controller and perform the planned action."""
    endo, exo, check = list(own['endo']), list(own['exo']), list(own['check'])

    def seam(self, hook, t, kw):
        ctl = probes.get_ctl(self)
        d = self.__dict__
        n = len(d['span'])
        tn = t + n if t < 0 else t
        key = f'{hook}:{tn}'
        if ctl.depth or probes.NESTING[0]:
            ctl.nested.append((hook, int(tn)))  # (a solve made by a callback: kept out of the history that is judged)
            return
        k = ctl.count[key] = ctl.count.get(key, 0) + 1
        rec = {'hook': hook, 't': int(t), 'tn': int(tn), 'k': k, 'iteration': kw.get('iteration'), 'submodels': list(kw.get('submodels') or []), 'exc': None}
        ctl.log.append(rec)
        if ctl.bus is not None:
            ctl.bus.append(('_', hook, int(tn), k, kw.get('iteration')))
        acts = ctl.plan.get(hook)
        act = None
        if isinstance(acts, list):
            act = acts[k - 1] if k - 1 < len(acts) else None
        elif isinstance(acts, dict):
            act = acts
        if act:
            a = act.get('a')
            if a == 'raise':
                rec['exc'] = act['exc']
                raise probes.EXCEPTIONS[act['exc']](f"injected {act['exc']} in linker hook")
            if a == 'cb':
                _linker_callback(self, t, tn, act, ctl, kw, rec)
            elif a == 'delta':
                d['_L0'][t] = d['_L0'][t] + probes.fval(act['d'][0])
            elif a == 'link':
                subs = d['submodels']
                sel = list(kw.get('submodels') or [])
                if act['src'] in subs and act['dst'] in subs and (act.get('any') or (act['src'] in sel and act['dst'] in sel)):
                    base_ = subs[act['dst']].__dict__['_' + act['dv']][t] if act.get('acc') else subs[act['src']].__dict__['_' + act['sv']][t]
                    subs[act['dst']].__dict__['_' + act['dv']][t] = base_ + act['c']
                    rec['linked'] = True
                    rec['linked_to'] = (act['dst'], act['dv'])
        # what the linker can see of the check variables at this instant
        snap = {'_': [float(d['_' + nm][t]) for nm in d['check']]}
        for sid, sm in d['submodels'].items():
            snap[str(sid)] = [float(sm.__dict__['_' + nm][t]) for nm in sm.__dict__['check']]
        rec['view'] = snap
        rec['endo_view'] = {'_': [float(d['_' + nm][t]) for nm in endo]}
        for sid, sm in d['submodels'].items():
            rec['endo_view'][str(sid)] = [float(sm.__dict__['_' + nm][t]) for nm in sm.__dict__['endogenous']]

    ns = {
        'ENDOGENOUS': endo,
        'EXOGENOUS': exo,
        'NAMES': endo + exo,
        'CHECK': check,
        'solve_t_before': lambda self, t, **kw: seam(self, 'before', t, kw),
        'solve_t_after': lambda self, t, **kw: seam(self, 'after', t, kw),
        'evaluate_t_before': lambda self, t, **kw: seam(self, 'eb', t, kw),
        'evaluate_t_after': lambda self, t, **kw: seam(self, 'ea', t, kw),
    }
    return type('ScriptedLinker', (fsic.BaseLinker,), ns)


def build(fsic, spec):
    subs = {}
    for sid, ms in spec['subs'].items():
        cls = probes.make_scripted(fsic, ms)
        subs[sid] = probes.new_scripted_instance(cls, spans.make_span(spec['span']), ms['init'])
    LC = make_linker_class(fsic, spec['own'])
    dt = {'float': float, 'float32': np.float32, 'int': int}[spec.get('dtype', 'float')]
    kw = {} if dt is float else {'dtype': dt}  # the dtype of the linker's own variables; submodels keep theirs
    if subs:
        L = LC(subs, **kw)
    else:
        L = LC(subs, span=spans.make_span(spec['span']), **kw)
    for nm, vals in spec['init'].items():
        L.__dict__['_' + nm][:] = vals
    probes.attach_ctl(L)
    return L, LC


def snapshot_all(L):
    out = {'_': ref_solver.snapshot(L)}
    for sid, sm in L.__dict__['submodels'].items():
        out[str(sid)] = ref_solver.snapshot(sm)
    return out


def execute(schedule, ctx):
    fsic = import_fsic()
    spec = schedule['spec']
    L, LC = build(fsic, spec)
    d = L.__dict__
    n = len(d['span'])
    chk = lambda sig, ok, detail=None: ctx.check('C08', sig, ok, detail)  # noqa: E731
    subs = d['submodels']
    ids = list(subs)
    exp_check = {'_': list(spec['own']['check'])}
    exp_endo = {'_': list(spec['own']['endo'])}
    for s_ in ids:
        exp_check[s_] = list(spec['subs'][s_].get('check', spec['subs'][s_]['endo']))
        exp_endo[s_] = list(spec['subs'][s_]['endo'])
    ctx.probe(f'submodels:{min(len(ids), 2)}{"+" if len(ids) > 2 else ""}')

    # ---- construction facts
    want_lags = max([0] + [spec['subs'][s]['lags'] for s in ids])
    want_leads = max([0] + [spec['subs'][s]['leads'] for s in ids])
    chk('construction/lags-leads-are-maxima', (L.LAGS, L.LEADS) == (want_lags, want_leads) and (d['lags'], d['leads']) == (want_lags, want_leads), {'got': [L.LAGS, L.LEADS, d['lags'], d['leads']], 'want': [want_lags, want_leads]})
    if len({(spec['subs'][s]['lags'], spec['subs'][s]['leads']) for s in ids}) > 1:
        ctx.probe('differing-lags-leads')
    chk('construction/span', [str(x) for x in spans.elements(d['span'])] == [str(x) for x in spans.elements(spans.make_span(spec['span']))], None)

    for step, op in enumerate(schedule['ops']):
        ctx.step = step
        kind = op['op']
        if kind == 'construct-unequal-spans':
            if op['which'] not in subs:
                continue
            sp2 = dict(spec['span'])
            if op['how'] == 'longer':
                sp2['n'] += 1
            elif op['how'] == 'shifted':
                sp2['origin'] = sp2.get('origin', 0) + 1
            elif op['how'] == 'other-labels':
                sp2['type'] = 'list_str' if sp2['type'] != 'list_str' else 'list_int'
            other_span = spans.make_span(sp2)
            if op['how'] not in ('permuted', 'repeated', 'interior', 'array-partial') and spans.describe(other_span) == spans.describe(spans.make_span(spec['span'])):
                continue  # (the 'other' span came out equal to the linker's: nothing to reject)
            if op['how'] in ('permuted', 'repeated', 'interior'):
                # same length, same labels - in another order, or with one label repeated ('interior': same first and last
                # label too, the difference lies strictly between them)
                items = spans.elements(spans.make_span(spec['span']))
                if len(items) < (3 if op['how'] == 'interior' else 2):
                    continue
                if op['how'] == 'permuted':
                    items[0], items[-1] = items[-1], items[0]
                elif op['how'] == 'interior':
                    if len(items) >= 4:
                        items[1], items[-2] = items[-2], items[1]
                    else:
                        items[1] = items[0]
                else:
                    items[-1] = items[0]
                other_span = list(items) if sp2['type'] != 'range' else list(items)
                if spec['span']['type'] == 'range':
                    # a list against a range is a different kind of span anyway; compare like with like
                    continue
            ms = spec['subs'][op['which']]
            array_like = op['how'] == 'array-partial'
            if array_like:
                # NumPy / pandas spans of equal length that agree in some positions and differ in others
                if n < 2:
                    continue
                kind_ = ['np_int', 'pd_index_int', 'np_str'][step % 3]
                base_spec = dict(spec['span'], type=kind_)
                items = spans.elements(spans.make_span(base_spec))
                items[-1] = items[-1] + 1000 if not isinstance(items[-1], str) else 'zzz'
                if kind_.startswith('np'):
                    other_span = np.array(items)
                else:
                    import pandas as pd

                    other_span = pd.Index(items)
            other = probes.make_scripted(fsic, ms)(other_span)
            probes.attach_ctl(other)
            parts = {}
            for sid in ids:
                parts[sid] = other if sid == op['which'] else probes.make_scripted(fsic, spec['subs'][sid])(spans.make_span(base_spec if array_like else spec['span']))
            try:
                LC(parts)
                e = None
            except Exception as ex:
                e = ex
            ctx.probe('unequal-spans:' + op['how'])
            if array_like:
                # any rejection will do for array-like spans (their element-wise comparison has no single truth value)
                chk('construction/unequal-array-spans-rejected', e is not None, {'exc': None, 'how': op['how'], 'span': kind_})
            else:
                chk('construction/unequal-spans-rejected', type(e).__name__ == 'InitialisationError', {'exc': type(e).__name__ if e else None, 'how': op['how']})
            ctx.outcome(kind, type(e).__name__ if e else 'accepted')
            ctx.log(step, kind, type(e).__name__ if e else None)
            continue
        if kind == 'twin':
            do_twin(fsic, spec, op, ctx, chk)
            continue
        if kind == 'parser_twin':
            do_parser_twin(fsic, spec, op, ctx, chk)
            continue
        if kind == 'copy':
            import copy as _copy

            L = L.copy() if op['route'] == 'copy' else _copy.copy(L) if op['route'] == 'copy.copy' else _copy.deepcopy(L)
            d = L.__dict__
            subs = d['submodels']
            ctx.probe('history:copy')
            ctx.log(step, 'copy')
            ctx.outcome('copy', 'ok')
            continue
        if kind == 'rebind':
            # whole-series assignment from a list: the variable keeps its values but lives in a new array object
            target = L if op['who'] == '_' else subs.get(op['who'])
            if target is not None:
                nms = [x for x in target.__dict__['index'] if x not in ('status', 'iterations')]
                nm = nms[op['k'] % len(nms)]
                setattr(target, nm, [float(v) for v in target.__dict__['_' + nm].tolist()])
                ctx.probe('history:rebind-series')
            ctx.log(step, 'rebind')
            ctx.outcome('rebind', 'ok')
            continue
        if kind == 'grow_endogenous':
            # the instance-level endogenous list is the user's to change at run time
            target = L if op['who'] == '_' else subs.get(op['who'])
            if target is not None and op['who'] in exp_endo:
                lst = target.__dict__['endogenous']
                extra = [x for x in target.__dict__['index'] if x not in exp_endo[op['who']] and x not in ('status', 'iterations')]
                if extra:
                    lst.append(extra[0])
                    exp_endo[op['who']].append(extra[0])
                    ctx.probe('history:endogenous-list-grown')
            ctx.log(step, 'grow_endogenous')
            ctx.outcome('grow_endogenous', 'ok')
            continue
        if kind == 'edit_check':
            target = L if op['who'] == '_' else subs.get(op['who'])
            if target is not None and isinstance(target.__dict__.get('check'), list) and op['who'] in exp_check:
                lst = target.__dict__['check']
                want_ = exp_check[op['who']]  # (the edit is decided on the harness's own account of the list)
                if op['how'] == 'append':
                    extra = [x for x in target.__dict__['index'] if x not in want_ and x not in ('status', 'iterations') and target.__dict__['_' + x].dtype.kind in 'fi']
                    if extra:
                        lst.append(extra[op['k'] % len(extra)])
                        want_.append(extra[op['k'] % len(extra)])
                        ctx.probe('history:instance-check-append')
                elif want_:
                    nm_ = want_[op['k'] % len(want_)]
                    if nm_ in lst:
                        lst.remove(nm_)
                    want_.remove(nm_)
                    ctx.probe('history:instance-check-remove')
            ctx.log(step, 'edit_check')
            ctx.outcome('edit_check', 'ok')
            continue
        if kind == 'replace_submodel':
            if op['who'] in subs:
                subs[op['who']] = subs[op['who']].copy()
                ctx.probe('history:submodel-replaced')
            ctx.log(step, 'replace_submodel')
            ctx.outcome('replace_submodel', 'ok')
            continue

        opts = op['opts']
        select = op['select']
        t = op['t']
        tn = t + n if t < 0 else t
        if kind in ('solve', 'solve_period'):
            t = tn
        bus = []
        fault = op.get('fault')
        lplan = {'eb': list(op['lplan']['eb']), 'ea': list(op['lplan']['ea'])}
        plans = op['plans']
        if fault:
            import copy as _copy

            plans = _copy.deepcopy(plans)
            kf = fault['k']
            if fault['where'] in ('eb', 'ea'):
                acts = lplan[fault['where']]
                while len(acts) < kf:
                    acts.append({'a': 'noop'})
                acts[kf - 1] = {'a': 'raise', 'exc': fault['exc']}
            elif fault['where'] in plans:
                ps = plans[fault['where']]['*'].setdefault('passes', [])
                while len(ps) < kf:
                    ps.append({'a': 'noop'})
                ps[kf - 1] = {'a': 'raise', 'exc': fault['exc'], 'partial': 0}
        probes.get_ctl(L).arm(lplan, bus, '_')
        for sid, sm in subs.items():
            probes.get_ctl(sm).arm(plans.get(sid), bus, sid)
        snap = snapshot_all(L)
        kw = S.solver_kwargs(opts)
        if select is not None:
            kw['submodels'] = list(select)
        try:
            triple = None
            if kind == 'solve':
                lab = d['span'][tn]
                v = L.solve(start=lab, end=lab, **kw)
                triple = v
                v = v[2][0] if isinstance(v, tuple) and len(v) == 3 and len(v[2]) == 1 else v
            elif kind == 'solve_period':
                v = L.solve_period(d['span'][tn], **kw)
            else:
                v = L.solve_t(t, **kw)
            out = {'kind': 'return', 'value': v}
        except Exception as ex:
            out = {'kind': 'raise', 'exc': ex}
        post = snapshot_all(L)
        cls_out = 'return' if out['kind'] == 'return' else type(out['exc']).__name__
        if kind == 'solve' and out['kind'] == 'return':
            # C05 (the multi-period entry point of a linker): (labels, positions, flags), one entry per period visited
            ok_ = isinstance(triple, tuple) and len(triple) == 3 and [str(x) for x in triple[0]] == [str(d['span'][tn])] and [int(x) for x in triple[1]] == [tn] and len(triple[2]) == 1
            ctx.check('C05', 'linker/solve-returns-labels-positions-flags', ok_, {'got': canon(triple), 'want': [[str(d['span'][tn])], [tn], ['<flag>']]})
            ctx.probe('linker-solve-triple')
        ctx.count('passes', sum(1 for b in bus if b[1] == 'eval'))
        ctx.count('steps', len(bus))
        if any(not np.isfinite(x) for sm in subs.values() for r in probes.get_ctl(sm).log for x in r.get('post_endo', [])):
            ctx.fault('nonfinite-value-in-submodel')
        selected = ids if select is None else list(select)
        unknown = [s for s in selected if s not in subs]
        if select is not None:
            if unknown:
                ctx.probe('unknown-id')
            elif len(set(selected)) < len(ids):
                ctx.probe('proper-subset')
            elif selected != ids:
                ctx.probe('permuted-selection')
        if spec['own']['check']:
            ctx.probe('linker-with-own-check-variables')
        if t < 0:
            ctx.probe('negative-t')

        # ---- what the hooks' own callbacks did on their own account (the user's doing, not the call's)
        lrecs_ = probes.get_ctl(L).log
        cb_periods = {r['nested_period'] for r in lrecs_ if r.get('nested_period') is not None}
        cb_others = {s_ for r in lrecs_ for s_ in r.get('nested_other', [])}
        for what_, res_ in probes.get_ctl(L).callbacks:
            ctx.fault('callback-into-library' if res_ == 'ok' else 'callback-into-library-raised')
            ctx.probe('linker-callback:' + what_)
        for r in lrecs_:
            if r.get('swapped'):
                sid_, old_, at_swap = r['swapped']
                now_ = {nm: old_.__dict__['_' + nm] for nm in old_.__dict__['index']}
                cells_ = ref_solver.diff_cells(at_swap, now_)
                # the object the hook kept is a checkpoint: the linker goes on with the copy it was given
                chk('callback/checkpoint-changed-after-swap', not cells_, {'submodel': sid_, 'changed': cells_[:6]})
                ctx.check('C11', 'linker/checkpoint-changed-by-solving-its-copy', not cells_, {'submodel': sid_, 'changed': cells_[:6]})
                ctx.probe('linker-callback:swapped-in-a-copy')
            if r.get('added'):
                late = subs.get(r['added'])
                if late is not None:
                    ld = late.__dict__
                    untouched = all(str(x) == '-' for x in ld['_status'].tolist()) and all(int(x) == -1 for x in ld['_iterations'].tolist()) and not probes.get_ctl(late).log and not probes.get_ctl(late).nested
                    chk('callback/submodel-added-during-the-call-was-solved', untouched, {'status': [str(x) for x in ld['_status'].tolist()], 'evaluated': len(probes.get_ctl(late).log) + len(probes.get_ctl(late).nested)})
                    del subs[r['added']]
                    post.pop(r['added'], None)
        fired = bool(fault) and (any(r.get('exc') for r in probes.get_ctl(L).log) or any(r.get('exc') for sm in subs.values() for r in probes.get_ctl(sm).log))

        def unselected_untouched(sel):
            for sid in ids:
                if sid in sel:
                    continue
                if sid in cb_others:
                    continue  # (a hook solved this one itself, on its own account)
                by_hook = {(r['linked_to'][1], tn) for r in probes.get_ctl(L).log if r.get('linked_to') and r['linked_to'][0] == sid}
                if by_hook:
                    ctx.probe('hook-writes-into-unselected-submodel')
                cells = [c for c in ref_solver.diff_cells(snap[sid], post[sid]) if tuple(c) not in by_hook]  # (the user's own hook wrote those)
                chk('unselected/untouched', not cells, {'submodel': sid, 'changed': cells[:6]})
                chk('unselected/not-evaluated', not any(b[0] == sid for b in bus), {'submodel': sid})

        if unknown:
            off_bad = opts['offset'] and not (0 <= tn + opts['offset'] < n)
            chk('unknown-id/KeyError', cls_out == 'KeyError' or (off_bad and cls_out == 'IndexError'), {'got': cls_out, 'select': selected})
            ctx.outcome(kind, 'unknown-id:' + cls_out)
            ctx.log(step, kind, 'unknown-id', cls_out)
            _resync(L, snap) if cls_out == 'KeyError' else None
            continue

        off = opts['offset']
        if off and not (0 <= tn + off < n):
            ctx.probe('offset-out-of-span')
            chk('offset-out-of-span-accepted', cls_out == 'IndexError', {'got': cls_out, 'offset': off, 't': t, 'n': n})
            if cls_out == 'IndexError':
                allc = [c for k_ in snap for c in ref_solver.diff_cells(snap[k_], post[k_])]
                chk('offset-out-of-span/nothing-changes', not allc, {'changed': allc[:6]})
            ctx.outcome(kind, 'offset-out:' + cls_out)
            ctx.log(step, kind, 'offset-out', cls_out)
            continue

        if fired:
            # the injected exception got out of user code: the call has no prescribed outcome, but it must have stayed
            # inside its frame - unselected submodels neither evaluated nor re-stamped, no other period touched
            ctx.fault('exception-in-' + ('linker-hook' if fault['where'] in ('eb', 'ea') else 'submodel-pass'))
            chk('fault/raises', out['kind'] == 'raise', {'got': cls_out, 'fault': fault})
            unselected_untouched(selected)
            for key in post:
                bad = [c for c in ref_solver.diff_cells(snap[key], post[key]) if c[1] != tn and c[1] not in cb_periods]
                chk('frame/other-periods-untouched', not bad, {'where': key, 'changed': bad[:6], 'after': 'fault'})
            chk('status/alphabet', str(post['_']['status'][tn]) in ref_solver.ALPHABET, {'status': str(post['_']['status'][tn])})
            ctx.log(step, kind, t, selected, 'fault', cls_out, [list(b[:2]) for b in bus])
            ctx.outcome(kind, 'fault:' + cls_out)
            continue

        # ---- the start state after the offset copy (linker's own endogenous and every selected submodel's), by the
        #      instances' own endogenous / check lists as they are now
        # (the check lists are the classes' own plus the edits this history made - kept by the harness, not read back from
        #  the instances, whose lists are part of what is judged; a submodel that joined during the run brings its own)
        own_endo, own_check = list(exp_endo['_']), list(exp_check['_'])
        sub_endo = {sid: list(exp_endo[sid]) if sid in exp_endo else list(subs[sid].__dict__['endogenous']) for sid in ids}
        sub_check = {sid: list(exp_check[sid]) if sid in exp_check else list(subs[sid].__dict__['check']) for sid in ids}
        start = {k_: {nm: a.copy() for nm, a in v_.items()} for k_, v_ in snap.items()}
        if off:
            ctx.probe('offset-used')
            for nm in own_endo:
                start['_'][nm][tn] = snap['_'][nm][tn + off]
            for sid in selected:
                for nm in sub_endo[sid]:
                    start[sid][nm][tn] = snap[sid][nm][tn + off]

        # ---- history: per iteration  eb, eval(s1..sk), ea  in the selected order
        lrecs = probes.get_ctl(L).log
        iters = []
        cur = None
        order_ok = True
        for b in bus:
            who, hook = b[0], b[1]
            if who == '_' and hook == 'eb':
                cur = {'eb': b, 'evals': [], 'ea': None}
                iters.append(cur)
            elif who == '_' and hook == 'ea':
                if cur is None or cur['ea'] is not None:
                    order_ok = False
                else:
                    cur['ea'] = b
            elif hook == 'eval':
                if cur is None or cur['ea'] is not None:
                    order_ok = False
                else:
                    cur['evals'].append(b)
        chk('iteration/hook-order', order_ok and all(it['ea'] is not None for it in iters), {'bus': [list(b[:2]) for b in bus[:14]]})
        for kk, it in enumerate(iters, 1):
            got = [b[0] for b in it['evals']]
            chk('iteration/evaluates-selected-in-order', got == selected, {'iteration': kk, 'evaluated': got, 'selected': selected})
            chk('iteration/keyword', it['eb'][4] == kk and all(b[4] == kk for b in it['evals']), {'iteration': kk, 'got': it['eb'][4]})
        if any(r['hook'] != 'eval' for sid in ids for r in probes.get_ctl(subs[sid]).log):
            ctx.probe('linker-called-a-submodel-hook')  # (not prescribed either way by the property)
        unselected_untouched(selected)
        K = len(iters)

        # ---- first evaluation sees endogenous[t + offset] at t
        if off and K >= 1:
            eb1 = [r for r in lrecs if r['hook'] == 'eb']
            if eb1:
                seen = eb1[0]['endo_view']
                want = {'_': [float(start['_'][nm][tn]) for nm in own_endo]}
                for sid in selected:
                    want[sid] = [float(start[sid][nm][tn]) for nm in sub_endo[sid]]
                # the eb hook itself may already have moved L0: compare against its pre-action view only for submodels
                bad = [sid for sid in selected if not all(ref_solver._eq(a, b) for a, b in zip(seen.get(sid, []), want[sid]))]
                act1 = (op['lplan']['eb'] or [{}])[0]
                if act1.get('a') == 'link':
                    bad = [s for s in bad if s != act1.get('dst')]
                chk('offset-not-applied', not bad, {'submodels': bad, 'offset': off, 't': t})
                own_ok = act1.get('a') == 'delta' or all(ref_solver._eq(a, b) for a, b in zip(seen['_'], want['_']))
                chk('offset-not-applied/linker-own', own_ok, {'seen': seen['_'], 'want': want['_']})

        # ---- convergence as recorded: values of all check variables after each iteration
        def view0():
            v0 = {'_': [float(start['_'][nm][tn]) for nm in own_check]}
            for sid in selected:
                v0[sid] = [float(start[sid][nm][tn]) for nm in sub_check[sid]]
            return v0

        eas = [r for r in lrecs if r['hook'] == 'ea']
        views = [view0()] + [{k_: r['view'][k_] for k_ in ['_'] + selected} for r in eas]
        tol = opts['tol']

        narrow = spec.get('dtype') == 'float32'

        def rounding_decides(k):
            """The linker's own variables in single precision: does the step, taken in that precision, fall on the other
            side of tol than the exact difference of the stored values? (Then neither reading is prescribed.)"""
            if not narrow or k < 1 or k >= len(views):
                return False
            a, b = views[k - 1]['_'], views[k]['_']
            with np.errstate(all='ignore'):
                return any((abs(x - y) < tol) != bool(abs(np.float32(x) - np.float32(y)) < tol) for x, y in zip(b, a))

        def qualifies(k):
            a, b = views[k - 1], views[k]
            return all(abs(x - y) < tol for key in b for x, y in zip(b[key], a[key]))

        st = str(post['_']['status'][tn])
        it_rec = int(post['_']['iterations'][tn])
        chk('status/alphabet', st in ref_solver.ALPHABET, {'status': st})
        # the first iteration in [max(1, min_iter), max_iter] at which every check variable of the linker and of the
        # selected submodels has moved by less than tol is where the period is declared solved (what else moves - a
        # submodel outside the selection, say - has no say); judged when every recorded value is finite
        finite = all(np.isfinite(x) for v_ in views for key in v_ for x in v_[key])
        first_q = None
        if any(rounding_decides(k_) for k_ in range(1, len(views))):
            ctx.probe('narrow-dtype-rounding-at-tol')
        elif finite and len(views) == K + 1:
            for k_ in range(max(1, opts['min_iter']), K + 1):
                if qualifies(k_):
                    first_q = k_
                    break
            if first_q is not None:
                ctx.probe('qualifying-iteration-reached')
                chk('not-declared-solved-at-first-qualifying-iteration', st == '.' and K == first_q, {'first-qualifying': first_q, 'performed': K, 'status': st, 'tol': tol, 'selected': selected})
        if st == '.':
            chk('solved/iteration-bounds', max(1, opts['min_iter']) <= K <= opts['max_iter'], {'iterations': K, 'min_iter': opts['min_iter'], 'max_iter': opts['max_iter']})
            ok = K >= 1 and len(views) > K and (qualifies(K) or rounding_decides(K))
            moved = None
            if K >= 1 and len(views) > K:
                moved = max([abs(x - y) for key in views[K] for x, y in zip(views[K][key], views[K - 1][key])] + [0.0])
            chk('declared-solved-while-moving>=tol', ok, {'largest-move': moved, 'tol': tol, 'iterations': K})
            chk('solved/returns-True', out['kind'] == 'return' and bool(out['value']) is True, {'got': cls_out})
            if K == max(1, opts['min_iter']):
                ctx.probe('solved-at-first-permitted-iteration')
        elif st == 'F':
            chk('failed/iterations-is-max_iter', K == opts['max_iter'], {'iterations': K, 'max_iter': opts['max_iter']})
            if opts['failures'] == 'raise':
                chk('failed/NonConvergenceError', cls_out == 'NonConvergenceError', {'got': cls_out})
            else:
                chk('failed/returns-False', out['kind'] == 'return' and bool(out['value']) is False, {'got': cls_out})
        else:
            chk('status/solved-or-failed', False, {'status': st, 'outcome': cls_out, 'max_iter': opts['max_iter']})
        chk('iterations-recorded' + ('/max_iter=0' if opts['max_iter'] == 0 else ''), it_rec == K, {'recorded': it_rec, 'performed': K, 'outcome': cls_out})
        # (the linker's own solve_t_before / solve_t_after hooks are not mentioned by the property: recorded, not asserted)
        ctx.probe('linker-solution-hooks:' + str(len([r for r in lrecs if r['hook'] in ('before', 'after')])))
        for sid in selected:
            if out['kind'] == 'raise':
                # C05: "the failing period carries the status its policy prescribes" - on the linker's parts too
                ctx.check('C05', 'linker/failing-period-status-on-submodels', str(post[sid]['status'][tn]) == st, {'submodel': sid, 'got': str(post[sid]['status'][tn]), 'linker': st})
            chk('stamp/same-status-on-selected', str(post[sid]['status'][tn]) == st, {'submodel': sid, 'got': str(post[sid]['status'][tn]), 'linker': st})
            chk('stamp/selected-iterations-equal-linker', int(post[sid]['iterations'][tn]) == it_rec, {'submodel': sid, 'got': int(post[sid]['iterations'][tn]), 'linker': it_rec})
        # frame: nothing outside period t changes anywhere
        for key in post:
            bad = [c for c in ref_solver.diff_cells(snap[key], post[key]) if c[1] != tn and c[1] not in cb_periods]
            chk('frame/other-periods-untouched', not bad, {'where': key, 'changed': bad[:6]})
        ctx.log(step, kind, t, selected, cls_out, st, it_rec, K, [list(b[:2]) for b in bus])
        ctx.outcome(kind, f'{cls_out}:{st}')
        ctx.state([kind, cls_out, st, min(K, 4), len(selected), bool(off)])


def _resync(L, snap):
    return None


def do_parser_twin(fsic, spec, op, ctx, chk):
    """Models built by the parser from scripts: a linker over two of them has the maxima of their lag / lead lengths; a
    linker that wraps one of them solves it as it solves on its own."""
    classes = [probes.build_parser_class(fsic, mdl, ctx) for mdl in op['models']]
    if any(c is None for c in classes):
        return
    m0 = op['models'][0]
    need = max(mdl['lags'] + mdl['leads'] + 1 for mdl in op['models'])
    n = max(len(spans.make_span(spec['span'])), need)
    sp = dict(spec['span'], n=n)

    def fresh(cls, mdl):
        x = cls(spans.make_span(sp))
        for nm, vals in mdl['init'].items():
            if nm in x.__dict__['index']:
                vals = (list(vals) * (n // max(1, len(vals)) + 1))[:n]
                x.__dict__['_' + nm][:] = vals
        return x

    both = fsic.BaseLinker({'A': fresh(classes[0], m0), 'B': fresh(classes[1], op['models'][1])})
    want = (max(mdl['lags'] for mdl in op['models']), max(mdl['leads'] for mdl in op['models']))
    ctx.probe('linker-over-parser-built-models')
    chk('construction/lags-leads-are-maxima', (both.LAGS, both.LEADS) == want and (both.lags, both.leads) == want, {'got': [both.LAGS, both.LEADS], 'want': list(want), 'scripts': [mdl['script'][:120] for mdl in op['models']]})
    # two instances of one class (holding different data) in one linker, against the same two built from classes of
    # their own: what one submodel computes must not depend on the other being of the same class
    try:
        twinA, twinB = (fsic.build_model(fsic.parse_model(m0['script']), **(m0.get('build') or {})) for _ in range(2))
        same_cls = fsic.BaseLinker({'A': fresh(classes[0], m0), 'B': fresh(classes[0], m0)})
        own_cls = fsic.BaseLinker({'A': fresh(twinA, m0), 'B': fresh(twinB, m0)})
        for lk in (same_cls, own_cls):
            b_ = lk.submodels['B'].__dict__
            for nm_ in b_['index']:
                if b_['_' + nm_].dtype.kind == 'f':
                    b_['_' + nm_][:] = b_['_' + nm_] * 1.5 + 1.0
        kw_ = {k_: v_ for k_, v_ in S.solver_kwargs(op['opts']).items() if k_ not in ('errors', 'catch_first_error')}
        kw_.update(failures='ignore', offset=0, max_iter=min(int(kw_.get('max_iter', 5)), 6), min_iter=0)
        import warnings as _w2

        with _w2.catch_warnings():
            _w2.simplefilter('ignore')
            outs = []
            for lk in (same_cls, own_cls):
                try:
                    outs.append(('return', canon(lk.solve(**kw_)[2])))
                except Exception as ex_:
                    outs.append(('raise', type(ex_).__name__))
        cells_ = [(sid_, c_) for sid_ in ('A', 'B') for c_ in ref_solver.diff_cells(ref_solver.snapshot(same_cls.submodels[sid_]), ref_solver.snapshot(own_cls.submodels[sid_]))]
        ctx.probe('linker-over-two-instances-of-one-class')
        chk('submodels-of-one-class/solve-as-submodels-of-classes-of-their-own', outs[0] == outs[1] and not cells_, {'outcomes': outs, 'differs': cells_[:6], 'script': m0['script'][:200]})
        ctx.check('C11', 'linker/submodels-of-one-class-observe-each-other', outs[0] == outs[1] and not cells_, {'outcomes': outs, 'differs': cells_[:6], 'script': m0['script'][:200]})
    except probes.SimInterrupt:
        raise
    bare, inner = fresh(classes[0], m0), fresh(classes[0], m0)
    LK = fsic.BaseLinker({'A': inner})
    opts = S.solver_kwargs(op['opts'])
    t = op['t'] % n
    if opts['offset'] and not (0 <= t + opts['offset'] < n):
        opts['offset'] = 0

    def run(obj):
        try:
            if op['entry'] == 'solve_all':
                return ('return', canon(obj.solve(**opts)[2]))
            if op['entry'] == 'solve':
                lab = obj.__dict__['span'][t]
                return ('return', canon(obj.solve(start=lab, end=lab, **opts)[2]))
            return ('return', canon(obj.solve_t(t, **opts)))
        except Exception as ex:
            return ('raise', type(ex).__name__)

    import warnings as _w

    with _w.catch_warnings():
        _w.simplefilter('ignore')
        ob, ol = run(bare), run(LK)
    ctx.probe('linker-of-one-twin:parser-built')
    pb, pi = ref_solver.snapshot(bare), ref_solver.snapshot(inner)
    ctx.count('steps', 2)
    if ob[0] == 'raise' and ol[0] == 'raise':
        # (both refuse or fail: the linker has no numerical-error policy of its own to compare)
        ctx.outcome('parser_twin', 'both-raise')
        return
    if op['opts']['errors'] != 'raise' or ob[0] == 'raise' or ol[0] == 'raise':
        nonfinite = any(not np.all(np.isfinite(a)) for nm, a in pb.items() if a.dtype.kind == 'f') or any(not np.all(np.isfinite(a)) for nm, a in pi.items() if a.dtype.kind == 'f')
        if nonfinite or ob[0] != ol[0]:
            ctx.probe('parser-twin:numerical-fault-met')  # the text prescribes nothing for non-finite values in a linker
            ctx.outcome('parser_twin', 'fault')
            return
    chk('linker-of-one/outcome', ob == ol, {'bare': ob, 'linker': ol, 'opts': opts, 'script': m0['script'][:200]})
    cells = ref_solver.diff_cells(pb, pi)
    chk('linker-of-one/values', not [c for c in cells if c[0] not in ('status', 'iterations')], {'differs': cells[:6], 'script': m0['script'][:200]})
    chk('linker-of-one/status', not [c for c in cells if c[0] == 'status'], {'differs': cells[:6]})
    chk('linker-of-one/iterations', not [c for c in cells if c[0] == 'iterations'], {'differs': cells[:6]})
    ctx.log(ctx.step, 'parser_twin', ob, ol)
    ctx.outcome('parser_twin', ob[0])


def do_twin(fsic, spec, op, ctx, chk):
    """A linker that wraps a single model and adds no equations solves it like the bare model."""
    ms = op['model']
    cls = probes.make_scripted(fsic, ms)
    bare = probes.new_scripted_instance(cls, spans.make_span(spec['span']), ms['init'])
    inner = probes.new_scripted_instance(cls, spans.make_span(spec['span']), ms['init'])
    LK = fsic.BaseLinker({'A': inner})
    n = len(bare.__dict__['span'])
    t = min(op['t'], n - 1)
    opts = S.solver_kwargs(op['opts'])
    if opts['offset'] and not (0 <= t + opts['offset'] < n):
        opts['offset'] = 0
    probes.get_ctl(bare).arm(op['plan'])
    probes.get_ctl(inner).arm(op['plan'])

    def run(obj):
        try:
            if op['entry'] == 'solve':
                lab = obj.__dict__['span'][t]
                return ('return', obj.solve(start=lab, end=lab, **opts)[2][0])
            return ('return', obj.solve_t(t, **opts))
        except Exception as ex:
            return ('raise', type(ex).__name__)

    ob = run(bare)
    ol = run(LK)
    ctx.probe('linker-of-one-twin')
    if not ms['lags'] <= t < n - ms['leads']:
        ctx.probe('linker-of-one-twin:period-the-model-cannot-be-solved-for')
    pb, pi = ref_solver.snapshot(bare), ref_solver.snapshot(inner)
    ctx.count('passes', len(probes.get_ctl(bare).log) + len(probes.get_ctl(inner).log))
    ctx.count('steps', len(probes.get_ctl(bare).log) + len(probes.get_ctl(inner).log))
    chk('linker-of-one/outcome', canon(ob) == canon(ol), {'bare': canon(ob), 'linker': canon(ol), 'opts': opts})
    chk('linker-of-one/status', str(pb['status'][t]) == str(pi['status'][t]) == str(LK.__dict__['_status'][t]), {'bare': str(pb['status'][t]), 'wrapped': str(pi['status'][t]), 'linker': str(LK.__dict__['_status'][t]), 'opts': opts})
    chk('linker-of-one/iterations', int(pb['iterations'][t]) == int(pi['iterations'][t]) == int(LK.__dict__['_iterations'][t]), {'bare': int(pb['iterations'][t]), 'wrapped': int(pi['iterations'][t]), 'linker': int(LK.__dict__['_iterations'][t]), 'opts': opts})
    cells = [c for c in ref_solver.diff_cells(pb, pi) if c[0] not in ('status', 'iterations')]
    chk('linker-of-one/values', not cells, {'differs': cells[:6], 'opts': opts})
    ctx.log(ctx.step, 'twin', canon(ob), canon(ol), int(pb['iterations'][t]), int(pi['iterations'][t]))
    ctx.outcome('twin', f'{ob[0]}:{pb["status"][t]}')
    ctx.state(['twin', canon(ob), str(pb['status'][t]), min(int(pb['iterations'][t]), 5)])
