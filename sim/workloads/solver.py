"""Single-period solver workload (C02, C06): scripted and parser-built models, one to three solve calls per run.

Schedule:
  {'spec': {...model...}, 'ops': [ {'op': 'solve_t'|'solve_period', 't': int, 'form': 0|1, 'opts': {...}, 'plan': {...}},
                                   {'op': 'poke', 'name': str, 'pos': int, 'v': value}, ... ]}
"""
import numpy as np

from .. import import_fsic, probes, ref_solver, scripts, spans
from ..kernel import canon

TOLS = [1e-10, 2.0**-10, 0.5, 1, 1.0, 0, -1.0, 2.0**-30]
DYADS = [-2.0, -1.0, -0.5, 0.0, 0.25, 1.0, 3.0, 0.125]


# ----------------------------------------------------------------------------
# generation


def gen_spec(rng, variant, tier):
    deep = tier == 'thorough'
    n_endo = rng.choice([1, 1, 2, 2, 3] + ([4, 5] if deep else []))
    if variant in ('solver', 'solver_faults', 'solver_labels') and rng.random() < 0.03:
        n_endo = 0  # a model with no endogenous variables at all (every convergence test is vacuous)
    n_exo = rng.choice([0, 1, 1, 2])
    if n_endo == 0:
        n_exo = max(1, n_exo)
    if deep and variant in ('solver', 'solver_faults') and rng.random() < 0.004:
        n_endo = rng.choice([24, 40])  # dozens of variables
    endo = [f'Y{i}' for i in range(n_endo)]
    exo = [f'X{i}' for i in range(n_exo)]
    style = rng.choice([None] * 8 + ['reversed', 'prefix', 'long', 'unicode'])
    if style == 'reversed':
        # declaration order is not sorted order
        endo, exo = [f'Y{n_endo - 1 - i}' for i in range(n_endo)], [f'X{n_exo - 1 - i}' for i in range(n_exo)]
    elif style == 'prefix' and n_endo <= 5:
        # names that are prefixes of one another
        endo, exo = ['Y' * (i + 1) for i in range(n_endo)], ['X' * (i + 1) for i in range(n_exo)]
    elif style == 'long':
        # names far longer than any fixed width
        endo, exo = [f'Y{i}_' + 'long_name_' * 5 for i in range(n_endo)], [f'X{i}_' + 'long_name_' * 5 for i in range(n_exo)]
    elif style == 'unicode':
        endo, exo = [f'\u0178{i}' for i in range(n_endo)], [f'\u0394x{i}' for i in range(n_exo)]
    r = rng.random()
    if n_endo == 0:
        check = [] if (r < 0.7 or not exo) else [exo[0]]
    elif r < 0.6 or (n_endo == 1 and r < 0.8):
        check = list(endo)
    elif r < 0.8:
        check = rng.sample(endo, rng.randint(1, n_endo - 1))
    elif r < 0.93 and exo:
        check = list(endo) + [rng.choice(exo)]
    elif r < 0.97:
        check = []
    else:
        check = list(reversed(endo))
    lags = rng.choice([0, 0, 0, 1, 2])
    leads = rng.choice([0, 0, 0, 1, 2])
    n = lags + leads + rng.randint(1, 8 if deep else 6)
    if variant in ('solver', 'solver_faults') and rng.random() < (0.004 if deep else 0.001):
        n = rng.choice([300, 1200])  # a long span
    sp = {'type': rng.choice(spans.TYPES), 'n': n, 'origin': rng.choice([0, 1, 3, 7])}
    if sp['type'] in spans.ORDERABLE and rng.random() < 0.25:
        sp['order'] = rng.choice(['desc', 'shuffle', 'swap'])  # labels that are not in sorted order
    init = {nm: [rng.choice(DYADS) for _ in range(n)] for nm in endo + exo}
    spec = {'kind': 'scripted', 'endo': endo, 'exo': exo, 'check': check, 'lags': lags, 'leads': leads, 'span': sp, 'init': init}
    if rng.random() < 0.15:
        spec['strict'] = True
    if variant in ('solver', 'solver_faults') and rng.random() < 0.2:
        # the extension mixins must be transparent to the solver when their features are not used
        spec['mixins'] = rng.sample(['alias', 'tracer', 'pandas', 'progress'], rng.randint(1, 4))
    return spec


def gen_opts(rng, faults, deep=False):
    max_iter = rng.choice([0, 1, 1, 2, 2, 3, 3, 4, 5, 6] + ([8, 10, 12] if deep else []))
    if rng.random() < 0.004:
        max_iter = rng.choice([127, 128, 129, 255, 256, 257, 300])  # past what a one-byte counter holds
    elif rng.random() < (0.0006 if deep else 0.0002):
        max_iter = rng.choice([32767, 32768, 40000])  # past what a two-byte counter holds
    r = rng.random()
    if r < 0.05:
        min_iter = max_iter + 1
    elif r < 0.45:
        min_iter = 0
    else:
        min_iter = rng.randint(0, max_iter)
    opts = {
        'min_iter': min_iter,
        'max_iter': max_iter,
        'tol': rng.choice(TOLS),
        'offset': 0,
        'failures': rng.choice(['raise', 'ignore']),
        'errors': 'raise',
        'catch_first_error': rng.random() < 0.5,
        'cfe_as': rng.choice(['bool'] * 6 + ['int', 'np']),  # the flag may arrive as 1 / 0 or numpy.bool_
    }
    if faults:
        opts['errors'] = rng.choice(['raise', 'raise', 'skip', 'ignore', 'replace', 'bogus'])
    else:
        opts['errors'] = rng.choice(['raise', 'raise', 'skip', 'ignore', 'replace'])
    return opts


def gen_deltas(rng, tol, n_endo, kind):
    """Per-variable increments realising one per-pass outcome."""
    if n_endo == 0:
        return []
    tl = abs(tol) if tol else 2.0**-10
    small = [0.0, tl / 2, -tl / 2, tl / 4, 0.0]
    big = [tl, -tl, tl * (1 + 2.0**-20), 2 * tl, 1.0, -1.0, tl * 4]
    if kind == 'conv':
        return [rng.choice(small) for _ in range(n_endo)]
    if kind == 'exact':
        d = [rng.choice(small) for _ in range(n_endo)]
        d[rng.randrange(n_endo)] = rng.choice([tl, -tl])
        return d
    if kind == 'partial':
        d = [rng.choice(small) for _ in range(n_endo)]
        d[rng.randrange(n_endo)] = rng.choice(big)
        return d
    return [rng.choice(big) for _ in range(n_endo)]


def gen_plan(rng, opts, spec, faults, idx):
    n_endo = len(spec['endo'])
    max_iter = opts['max_iter']
    if max_iter > 100:
        # a long run of moving passes, converging on the last permitted pass, never, or somewhere in the middle
        tl = abs(opts['tol']) if opts['tol'] else 2.0**-10
        stop = rng.choice([max_iter, max_iter + 1, max_iter - 1, max(1, max_iter // 2), 130])
        plan = {'passes': [], 'default': {'a': 'delta', 'd': [0.0] * n_endo}, 'moving_until': stop, 'moving': {'a': 'delta', 'd': [2 * tl] * n_endo}}
        return plan, []
    L = max_iter + 1
    # number of moving passes before the first converging one
    m = rng.choice([0, 0, 1, 1, 2, max(0, opts['min_iter'] - 1), opts['min_iter'], max(0, max_iter - 1), max_iter, max_iter + 1])
    passes = []
    for k in range(1, L + 1):
        if k <= m:
            kind = rng.choice(['move', 'move', 'partial', 'exact'])
        else:
            kind = rng.choice(['conv', 'conv', 'conv', 'conv', 'partial', 'move']) if k > m + 1 else 'conv'
        passes.append({'a': 'delta', 'd': gen_deltas(rng, opts['tol'], n_endo, kind)})
    if rng.random() < 0.04 and n_endo and spec.get('_allow_huge', True):
        # finite but huge check values that change sign every pass: the step between two passes overflows
        jj = rng.randrange(n_endo)
        for kk in range(len(passes)):
            v = [None] * n_endo
            v[jj] = 1.2e308 if kk % 2 == 0 else -1.2e308
            passes[kk] = {'a': 'set', 'v': v}
    elif rng.random() < 0.03 and n_endo >= 2 and spec.get('_allow_huge', True):
        # finite values so large that their SUM is not: every one of them is finite, so nothing is wrong with them
        for kk in range(len(passes)):
            passes[kk] = {'a': 'set', 'v': [1.0e308 if kk % 2 == 0 or rng.random() < 0.5 else 0.9e308 for _ in range(n_endo)]}
    if rng.random() < 0.12 and passes and n_endo:
        kk = rng.randrange(len(passes))
        passes[kk] = {'a': 'npunder', 'j': rng.randrange(n_endo), 'v': rng.choice(DYADS), 'd': passes[kk].get('d', [0.0] * n_endo)}
    plan = {'passes': passes}
    if rng.random() < 0.25 and spec['exo']:
        plan['before'] = {'a': 'setx', 'name': rng.choice(spec['exo']), 'v': rng.choice(DYADS)}
    if not faults:
        return plan, []
    # ---- fault placement: the run index sweeps kind x position, the PRNG chooses the rest
    kinds = ['nan', 'inf', '-inf', 'npwarn', 'pywarn', 'exception', 'hook-before-exc', 'hook-after-exc', 'hook-warn', 'preexisting', 'none']
    n_faults = 1 if rng.random() < 0.6 else rng.choice([2, 3])
    placed = []
    for i in range(n_faults):
        kind = kinds[(idx + i * 7) % len(kinds)] if i == 0 else rng.choice(kinds[:-1])
        where = rng.choice(['first', 'min_iter', 'last', 'any', 'any'])
        if where == 'first':
            kf = 1
        elif where == 'min_iter':
            kf = max(1, opts['min_iter'])
        elif where == 'last':
            kf = max(1, max_iter)
        else:
            kf = rng.randint(1, max(1, max_iter))
        kf = min(kf, L)
        if n_endo == 0 and kind in ('nan', 'inf', '-inf', 'npwarn'):
            kind = 'exception'
        j = rng.randrange(n_endo) if n_endo else 0
        if kind in ('nan', 'inf', '-inf'):
            v = [None] * n_endo
            v[j] = kind
            base = passes[kf - 1]
            passes[kf - 1] = {'a': 'set', 'v': v}
            # heal: a later pass writes finite values again
            if rng.random() < 0.5 and kf < L:
                hk = rng.randint(kf + 1, L)
                hv = [rng.choice(DYADS) for _ in range(n_endo)]
                passes[hk - 1] = {'a': 'set', 'v': hv}
                for kk in range(hk + 1, L + 1):
                    if passes[kk - 1]['a'] == 'delta' and rng.random() < 0.7:
                        passes[kk - 1] = {'a': 'set', 'v': hv}
                placed.append('heal')
            del base
        elif kind == 'npwarn':
            passes[kf - 1] = {'a': 'npwarn', 'j': j, 'op': rng.choice(['div0', 'log0', 'exp', 'invalid']), 'd': [0.0] * n_endo}
        elif kind == 'pywarn':
            passes[kf - 1] = {'a': 'pywarn', 'when': rng.choice(['before', 'after']), 'cat': rng.choice(['RuntimeWarning', 'UserWarning', 'FutureWarning', 'DeprecationWarning']), 'd': passes[kf - 1].get('d', [0.0] * n_endo)}
        elif kind == 'exception':
            passes[kf - 1] = {'a': 'raise', 'exc': rng.choice(probes.EXCEPTION_NAMES), 'partial': rng.randint(0, n_endo), 'noargs': rng.random() < 0.25}
        elif kind == 'hook-before-exc':
            plan['before'] = {'a': 'raise', 'exc': rng.choice(probes.EXCEPTION_NAMES), 'noargs': rng.random() < 0.25}
        elif kind == 'hook-after-exc':
            plan['after'] = {'a': 'raise', 'exc': rng.choice(probes.EXCEPTION_NAMES), 'noargs': rng.random() < 0.25}
        elif kind == 'hook-warn':
            plan[rng.choice(['before', 'after'])] = {'a': 'pywarn', 'cat': rng.choice(['RuntimeWarning', 'UserWarning', 'FutureWarning'])}
        placed.append(kind)
    return plan, placed


SAFE_CALLBACKS = ['copy', 'copy-solve', 'deepcopy', 'eval', 'export', 'reindex', 'iter', 'bad_call', 'bad_call', 'label', 'rebind', 'rebind', 'rebind', 'label_probe', 'forward']


def gen_callbacks(rng, spec, opts, tn=None, kinds=SAFE_CALLBACKS):
    """User code that calls back into the library from inside a hook or an evaluation pass (re-entrant use)."""
    n, lags, leads = spec['span']['n'], spec['lags'], spec['leads']
    out = []
    for _ in range(rng.choice([1, 1, 2])):
        hook = rng.choice(['before', 'eval', 'eval', 'after'])
        cb = {'hook': hook, 'k': rng.randint(1, max(1, min(opts['max_iter'], 3))) if hook == 'eval' else 1, 'when': rng.choice(['pre', 'post'])}
        what = rng.choice(kinds)
        if what == 'copy-solve':
            cb.update(what='copy', solve=True)
        elif what == 'eval':
            names = spec['endo'] + spec['exo']
            cb.update(what='eval', expr=rng.choice(['{a} * 2', '{a} + {a}', 'lag({a})', '{a}[0]']).replace('{a}', rng.choice(names)))
        elif what == 'bad_call':
            cb.update(what='bad_call', how=rng.choice(['window', 'offset', 'position', 'margin', 'margin']), side=rng.choice(['lag', 'lead']), spelt=rng.choice(['positive', 'negative']))
        elif what == 'nested_solve':
            others = [p_ for p_ in range(lags, n - leads) if p_ != tn]
            if tn is None or not others:
                continue
            cb.update(what='nested_solve', tn2=rng.choice(others))
        elif what == 'label':
            cb.update(what='label', pos=rng.randrange(max(1, n)))
        elif what == 'rebind':
            pool = spec['endo'] + spec['check'] + ['status', 'iterations'] + spec['exo']
            cb.update(what='rebind', names=rng.sample(pool, rng.randint(1, min(3, len(pool)))), via=rng.choice(['attr', 'attr', 'item', 'replace_values']))
        elif what == 'label_probe':
            cb.update(what='label_probe', v=rng.randrange(4), a=rng.randrange(max(1, n)))
        elif what == 'nested_prev':
            cb.update(what='nested_solve', rel=-1)
        else:
            cb['what'] = what
        out.append(cb)
    return out


def neutralise_callbacks(plan, snap, post, ctx=None, tn=None):
    """What a callback did on its own account (the user's doing) is taken out of the judged state: the period a nested solve
    went to, the variables a callback added."""
    for p_ in (plan or {}).values():
        for cb in (p_ or {}).get('cb', ()):
            if ctx is not None:
                ctx.probe('callback:' + cb['what'] + ('+solve' if cb.get('solve') else '') + ':' + cb['hook'])
            if cb['what'] == 'nested_solve':
                tn2 = cb.get('tn2') if cb.get('rel') is None else (None if tn is None else tn + cb['rel'])
                if tn2 is None or tn2 == tn:
                    continue
                for nm in post:
                    if nm in snap and 0 <= tn2 < len(post[nm]):
                        post[nm][tn2] = snap[nm][tn2]
            if cb['what'] == 'add_variable':
                for nm in [x for x in post if x.startswith('CB') and x not in snap]:
                    post.pop(nm)


def gen_solve_op(rng, spec, variant, idx, tier):
    faults = variant not in ('solver', 'solver_labels')
    n, lags, leads = spec['span']['n'], spec['lags'], spec['leads']
    opts = gen_opts(rng, faults, tier == 'thorough')
    tn = rng.randint(lags, n - 1 - leads)
    t = tn - n if rng.random() < 0.35 else tn
    r = rng.random()
    if r < 0.55:
        off = 0
    elif r < 0.9:
        off = rng.choice([-2, -1, 1, 2])
    else:
        off = rng.choice([-n, n, -(tn + 1), n - tn, -(n + 3), n + 3])
    opts['offset'] = off
    if spec.get('dtype') == 'int64':
        opts['tol'] = rng.choice([1, 1, 2, 2.0, 1.0])
    plan, placed = gen_plan(rng, opts, spec, faults, idx)
    if spec.get('dtype') == 'int64':
        plan = integer_plan(plan)
    op = {
        'op': rng.choice(['solve_t'] * 11 + ['solve_period'] * 6 + ['solve1'] * 3),  # solve1: solve(start=label, end=label)
        'np_ints': rng.random() < 0.15,  # positions / counts arrive as NumPy integers, as they do from array arithmetic
        't': t,
        'form': rng.choice([0, 0, 1]),
        'opts': opts,
        'plan': {'*': plan},
    }
    if variant == 'solver_labels' and not spec.get('dtype'):
        # (C10) hooks and equations that address the model's own series by label while a period is being solved
        plan['cb'] = gen_callbacks(rng, spec, opts, tn, ['label_probe', 'label_probe', 'label_probe', 'label', 'rebind'])
    elif spec['kind'] == 'scripted' and rng.random() < 0.12 and not spec.get('dtype'):
        plan['cb'] = gen_callbacks(rng, spec, opts, tn, SAFE_CALLBACKS + ['nested_solve', 'nested_solve', 'add_variable'])
    mix = spec.get('mixins') or []
    if 'progress' in mix:
        op['pb'] = rng.choice([None, False, True, True])  # the progress-bar keyword: omitted / off / on
    if 'tracer' in mix and rng.random() < 0.5:
        op['trace'] = True  # the tracer's own feature in use: the solver's outcome must be what it is without it
    pokes = []
    if faults and ('preexisting' in placed or rng.random() < 0.08):
        # dirty input: a non-finite value in a series at t or at t + offset before the call
        where = tn
        if off and 0 <= tn + off < n and rng.random() < 0.5:
            where = tn + off
        names = spec['endo'] + spec['exo']
        pokes.append({'op': 'poke', 'name': rng.choice(names), 'pos': where, 'v': rng.choice(['nan', 'inf', '-inf'])})
    return pokes + [op]


# ---- the single-fault lattice of C06, enumerated by run index (the PRNG is not consulted)

LAT_KINDS = ['none', 'nan', 'inf', '-inf', 'npwarn-div0', 'npwarn-log0', 'pywarn-before', 'pywarn-after', 'exception', 'hook-before-exc', 'hook-after-exc']
LAT_ITERS = [(mx, mn) for mx in range(0, 5) for mn in range(0, mx + 2)]  # (max_iter, min_iter), min_iter up to max_iter + 1
LAT_DIMS = [len(LAT_KINDS), len(LAT_ITERS), 4, 2, 5, 2, 2, 2, 2, 3]
LAT_SIZE = 1
for _d in LAT_DIMS:
    LAT_SIZE *= _d


def gen_lattice_schedule(idx, tier):
    """One point of: fault kind x (max_iter, min_iter) x faulting pass x variable x errors x failures x catch_first_error x
    pre-existing non-finite x heal x where the undisturbed run would converge. Thorough tier: every point, in order."""
    point = idx % LAT_SIZE if tier == 'thorough' else (idx * 7919) % LAT_SIZE
    digits = []
    rest = point
    for dsz in LAT_DIMS:
        digits.append(rest % dsz)
        rest //= dsz
    kind = LAT_KINDS[digits[0]]
    max_iter, min_iter = LAT_ITERS[digits[1]]
    kf = 1 + digits[2] % max(1, max_iter)
    j = digits[3]
    errors = ['raise', 'skip', 'ignore', 'replace', 'bogus'][digits[4]]
    failures = ['raise', 'ignore'][digits[5]]
    cfe = bool(digits[6])
    pre = bool(digits[7])
    heal = bool(digits[8])
    conv_at = [1, max(1, max_iter), 99][digits[9]]
    tol = 0.5
    spec = {'kind': 'scripted', 'endo': ['Y0', 'Y1'], 'exo': ['X0'], 'check': ['Y0', 'Y1'], 'lags': 0, 'leads': 0, 'span': {'type': 'range', 'n': 3, 'origin': 0}, 'init': {'Y0': [1.0, 2.0, 3.0], 'Y1': [0.5, 0.25, 0.125], 'X0': [0.0, 0.0, 0.0]}}
    passes = []
    for k in range(1, max_iter + 2):
        passes.append({'a': 'delta', 'd': [1.0, -1.0] if k < conv_at else [0.125, 0.0]})
    plan = {'passes': passes}
    if kind in ('nan', 'inf', '-inf') and kf <= len(passes):
        v = [None, None]
        v[j] = kind
        passes[kf - 1] = {'a': 'set', 'v': v}
        if heal and kf < len(passes):
            for kk in range(kf, len(passes)):
                passes[kk] = {'a': 'set', 'v': [2.0, 2.0]}
    elif kind.startswith('npwarn') and kf <= len(passes):
        passes[kf - 1] = {'a': 'npwarn', 'j': j, 'op': kind.split('-')[1], 'd': [0.0, 0.0]}
        if heal and kf < len(passes):
            for kk in range(kf, len(passes)):
                passes[kk] = {'a': 'set', 'v': [2.0, 2.0]}
    elif kind.startswith('pywarn') and kf <= len(passes):
        passes[kf - 1] = {'a': 'pywarn', 'when': kind.split('-')[1], 'cat': ['RuntimeWarning', 'UserWarning'][j], 'd': passes[kf - 1].get('d', [0.0, 0.0])}
    elif kind == 'exception' and kf <= len(passes):
        passes[kf - 1] = {'a': 'raise', 'exc': ['ZeroDivisionError', 'fsic.SolutionError'][j], 'partial': j}
    elif kind == 'hook-before-exc':
        plan['before'] = {'a': 'raise', 'exc': ['KeyError', 'fsic.NonConvergenceError'][j]}
    elif kind == 'hook-after-exc':
        plan['after'] = {'a': 'raise', 'exc': ['ValueError', 'InjectedError'][j]}
    ops = []
    if pre:
        ops.append({'op': 'poke', 'obj': 0, 'name': ['Y0', 'Y1'][j], 'pos': 1, 'v': 'nan'})
    ops.append({'op': 'solve_t', 'obj': 0, 't': 1, 'form': 0, 'np_ints': False, 'opts': {'min_iter': min_iter, 'max_iter': max_iter, 'tol': tol, 'offset': 0, 'failures': failures, 'errors': errors, 'catch_first_error': cfe, 'cfe_as': 'bool'}, 'plan': {'*': plan}})
    return {'spec': spec, 'ops': ops, 'np_err': 'default', 'lattice_point': point}


# ---- every sequence of per-pass outcomes up to four passes (C02), enumerated by run index

SEQ_OUTCOMES = {'conv': [0.125, 0.0], 'move': [1.0, -1.0], 'exact': [0.5, 0.125], 'partial': [1.0, 0.0]}
_SEQ_TABLE = None


def _seq_table():
    global _SEQ_TABLE
    if _SEQ_TABLE is None:
        import itertools

        _SEQ_TABLE = [(mx, mn, seq) for mx in range(0, 5) for mn in range(0, mx + 2) for seq in itertools.product(sorted(SEQ_OUTCOMES), repeat=mx)]
    return _SEQ_TABLE


SEQ_OTHER = [2, 2, 3, 2]  # failures x spelling of t x offset (none / in span / out of span) x tol (0.5 / 0)


def seq_size():
    return len(_seq_table()) * 2 * 2 * 3 * 2


def gen_seq_schedule(idx, tier):
    table = _seq_table()
    size = seq_size()
    point = idx % size if tier == 'thorough' else (idx * 7919) % size
    rest, digits = point, []
    for dsz in [len(table)] + SEQ_OTHER:
        digits.append(rest % dsz)
        rest //= dsz
    max_iter, min_iter, seq = table[digits[0]]
    failures = ['raise', 'ignore'][digits[1]]
    tol = [0.5, 0][digits[4]]
    n = 4
    tn = 2
    t = tn - n if digits[2] else tn
    offset = [0, -1, 5][digits[3]]
    spec = {'kind': 'scripted', 'endo': ['Y0', 'Y1'], 'exo': ['X0'], 'check': ['Y0', 'Y1'], 'lags': 0, 'leads': 0, 'span': {'type': 'range', 'n': n, 'origin': 0}, 'init': {'Y0': [1.0, 2.0, 3.0, 4.0], 'Y1': [0.5, 0.25, 0.125, 8.0], 'X0': [0.0] * 4}}
    passes = [{'a': 'delta', 'd': list(SEQ_OUTCOMES[o])} for o in seq] + [{'a': 'delta', 'd': [0.0, 0.0]}]
    op = {'op': 'solve_t', 'obj': 0, 't': t, 'form': 0, 'np_ints': False, 'opts': {'min_iter': min_iter, 'max_iter': max_iter, 'tol': tol, 'offset': offset, 'failures': failures, 'errors': 'raise', 'catch_first_error': True, 'cfe_as': 'bool'}, 'plan': {'*': {'passes': passes}}}
    return {'spec': spec, 'ops': [op], 'np_err': 'default', 'lattice_point': point}


def generate(rng, idx, tier, variant):
    if variant == 'solver_parser':
        return gen_parser_schedule(rng, idx, tier)
    if variant == 'solver_lattice':
        return gen_lattice_schedule(idx, tier)
    if variant == 'solver_seq':
        return gen_seq_schedule(idx, tier)
    spec = gen_spec(rng, variant, tier)
    np_err = rng.choice(['default'] * 7 + ['ignore', 'warn', 'raise'])
    # (with the caller's error state at 'raise', an overflow in the solver's own step arithmetic is the caller's doing)
    spec['_allow_huge'] = np_err != 'raise'
    if rng.random() < 0.12:
        spec['dtype'] = 'float32'  # the model's own dtype= argument: every series, and the solver's step arithmetic, in single precision
        spec['_allow_huge'] = False  # (huge float64 values would overflow on the way into the model's arrays)
    elif variant == 'solver' and rng.random() < 0.07:
        make_integer_model(rng, spec)
    ops = []
    two = rng.random() < 0.3  # a sibling instance of the same class takes part in the history
    wide = spec.get('dtype') == 'float32' and rng.random() < 0.3  # (most single-precision models keep a check list wholly in their own dtype)
    if wide:
        two = False
        ops.append({'op': 'add_variable', 'obj': 0, 'name': 'NW', 'v': 1.0, 'dtype': 'float64', 'check': True})
    last_t = None
    for _ in range(rng.choice([1, 1, 2, 3, 3, 6])):
        new_ops = gen_solve_op(rng, spec, variant, idx, tier)
        who = rng.randrange(2) if two else 0
        for o in new_ops:
            o['obj'] = who
            if wide and o.get('plan') and '*' in o['plan']:
                o['plan']['*']['drift'] = {'name': 'NW', 'd': rng.choice([2.0**-28, 2.0**-28, 0.0, 1.0, 2.0**-40])}
            if o['op'] in ('solve_t', 'solve_period', 'solve1'):
                # history: re-solve the period of the previous call (after a failure, a skip, a success) now and then
                if last_t is not None and rng.random() < 0.35:
                    o['t'] = last_t
                last_t = o['t']
        ops.extend(new_ops)
        r = rng.random()
        names = spec['endo'] + spec['exo']
        if r < 0.25:
            ops.append({'op': 'poke', 'obj': who, 'name': rng.choice(names), 'pos': rng.randrange(spec['span']['n']), 'v': rng.choice(DYADS) if spec.get('dtype') != 'int64' else BIG + rng.randrange(64)})
        elif r < 0.35:
            ops.append({'op': 'copy', 'obj': who, 'route': rng.choice(['copy', 'deepcopy'])})
        elif r < 0.42:
            ops.append({'op': 'add_variable', 'obj': who, 'name': f'N{len(ops)}', 'v': rng.choice(DYADS)})
        elif r < 0.47:
            ops.append({'op': 'edit_endogenous', 'obj': who, 'how': rng.choice(['append', 'append', 'remove']), 'k': rng.randrange(4)})
        elif r < 0.55:
            ops.append({'op': 'eval', 'obj': who, 'expr': rng.choice(['{a} + 1', '{a} * {b}', '{a}[0] + nosuchname', '1 / ({a} - {a})', 'log({a} * 0)', '{a}[', 'lag({a})']), 'a': rng.choice(names), 'b': rng.choice(names), 'warnings_': rng.choice(['ignore', 'always', 'error'])})
    if spec['kind'] == 'scripted' and not wide and rng.random() < 0.08:
        # the instance's own convergence-check list edited after construction (appended to, shortened, or assigned anew): from
        # then on it, not the class's, says which values must be finite at the start and must stop moving
        k_ = rng.randrange(len(ops) + 1)
        while k_ > 0 and ops[k_ - 1]['op'] not in ('solve_t', 'solve_period', 'solve1', 'solve', 'poke', 'copy', 'add_variable', 'edit_endogenous', 'eval'):
            k_ -= 1
        ops.insert(k_, {'op': 'edit_check', 'obj': rng.randrange(2) if two else 0, 'how': rng.choice(['append', 'append', 'remove', 'assign']), 'k': rng.randrange(6)})
    if spec['kind'] == 'scripted' and rng.random() < 0.05:
        spec['hookless_parent'] = True
    if rng.random() < 0.04:
        # another, hand-written model class without hooks of its own is used first in the same program: what the library
        # learns from it (at class or module level) is not this model's business
        ops.insert(0, {'op': 'plain_first', 'obj': 0})
    spec.pop('_allow_huge', None)
    sched = {'spec': spec, 'ops': ops, 'np_err': np_err}
    if rng.random() < 0.1 and _no_numpy_warning_possible(sched):
        # the calling program's own warning filter (only where the solver's own step arithmetic cannot warn: with
        # non-finite or huge values about, a caller who turns warnings into errors gets what they asked for)
        sched['ambient_warnings'] = rng.choice(['error', 'error', 'always', 'default'])
    return sched


def _no_numpy_warning_possible(sched):
    import json as _json

    if sched['spec'].get('dtype') or sched.get('np_err') != 'default':
        return False
    text = _json.dumps(sched['ops'])
    return not any(tok in text for tok in ('nan', 'inf', 'npwarn', 'npunder', 'e+308', 'e308', '"eval"'))


# ---- parser-built models: contractive / divergent / oscillating systems, natural faults


def gen_parser_schedule(rng, idx, tier):
    prog = scripts.gen_program(rng, max_eq=3, max_lag=2, max_lead=1, allow_funcs=True)
    lags, leads = prog['lags'], prog['leads']
    n = lags + leads + rng.randint(1, 5)
    sp = {'type': rng.choice(spans.TYPES), 'n': n, 'origin': rng.choice([0, 2, 5])}
    init = scripts.gen_data(rng, prog, n)
    build = probes.build_options(rng, prog, allow_shorter=True)
    lags, leads = probes.expected_lags_leads(prog['lags'], prog['leads'], build)
    if n < lags + leads + 1:
        n = lags + leads + 1 + rng.randint(0, 2)
        sp['n'] = n
        init = scripts.gen_data(rng, prog, n)
    spec = {'kind': 'parser', 'script': prog['script'], 'endo': prog['endo'], 'names': prog['names'], 'lags': lags, 'leads': leads, 'lags_script': prog['lags'], 'leads_script': prog['leads'], 'declared': prog['declared'], 'build': build, 'span': sp, 'init': init}
    if rng.random() < 0.15:
        spec['strict'] = True
    ops = []
    for _ in range(rng.choice([1, 2, 3])):
        opts = gen_opts(rng, True)
        opts['max_iter'] = rng.choice([0, 1, 2, 3, 5, 8, 20])
        opts['min_iter'] = rng.choice([0, 0, 1, 2, opts['max_iter']])
        if opts['min_iter'] > opts['max_iter'] and rng.random() < 0.8:
            opts['min_iter'] = opts['max_iter']
        opts['tol'] = rng.choice([1e-10, 1e-6, 2.0**-10, 0.5, 0])
        tn = rng.randint(lags, n - 1 - leads)
        t = tn - n if rng.random() < 0.35 else tn
        opts['offset'] = rng.choice([0, 0, 0, -1, 1, -2, n])
        if rng.random() < 0.45:
            # data corruption: a value that makes an equation divide by zero / log a non-positive number / overflow
            nm = rng.choice(prog['names'])
            pos = max(0, min(n - 1, tn + rng.choice([0, 0, -1, 1, -lags, leads])))
            ops.append({'op': 'poke', 'name': nm, 'pos': pos, 'v': rng.choice([0.0, -1.0, 1e308, -1e308, 'nan', 'inf', 750.0, -800.0, 1e-200])})
        ops.append({'op': 'solve_period' if rng.random() < 0.3 else 'solve_t', 't': t, 'form': rng.choice([0, 1]), 'opts': opts, 'plan': {}})
    return {'spec': spec, 'ops': ops}


# ----------------------------------------------------------------------------
# execution


def _dtype_kw(spec):
    kw = {'dtype': np.float32} if spec.get('dtype') == 'float32' else {'dtype': np.int64} if spec.get('dtype') == 'int64' else {}
    if spec.get('strict'):
        kw['strict'] = True  # strict mode guards attribute creation; solving creates none
    return kw


BIG = 2**53  # from here on float64 cannot tell neighbouring integers apart


def make_integer_model(rng, spec):
    """An integer-typed model (dtype=np.int64) whose values lie beyond 2**53: moves of 1 are real moves."""
    spec['dtype'] = 'int64'
    spec['_allow_huge'] = False
    spec.pop('mixins', None)
    n = spec['span']['n']
    spec['init'] = {nm: [BIG + rng.randrange(0, 64) for _ in range(n)] for nm in spec['endo'] + spec['exo']}


def integer_plan(plan):
    """The same per-pass outcomes in whole numbers (tol is 1 or 2 in integer runs)."""
    for ps in [plan.get('passes', [])]:
        for k, act in enumerate(ps):
            if act.get('a') in ('delta', 'npunder'):
                ps[k] = {'a': 'delta', 'd': [(int(round(d_)) if abs(d_) >= 1 else 0) for d_ in act.get('d', [])]}
            elif act.get('a') == 'set':
                ps[k] = {'a': 'delta', 'd': [0 for _ in act.get('v', [])]}
    plan.pop('before', None)
    plan.pop('after', None)
    return plan


def shorter_than_script(spec):
    b = spec.get('build') or {}
    return ('lags' in b and b['lags'] < spec.get('lags_script', 0)) or ('leads' in b and b['leads'] < spec.get('leads_script', 0))


class BuildFailed(Exception):
    """The workload's script did not yield a usable class (already recorded as a discrepancy)."""


def build(fsic, spec, ctx=None):
    span = spans.make_span(spec['span'])
    if spec['kind'] == 'scripted':
        if spec.get('hookless_parent'):
            # the model's class extends a hand-written class that has no hooks of its own and that was used (solved) on its
            # own earlier in the same program: what the library learnt from the parent is not the child's business
            def _pev(self, t, **kw):
                self._PV[t] = 0.5 * self._PV[t] + 1.0

            Parent = type('HooklessParent', (fsic.BaseModel,), {'ENDOGENOUS': ['PV'], 'EXOGENOUS': [], 'PARAMETERS': [], 'ERRORS': [], 'NAMES': ['PV'], 'CHECK': ['PV'], 'LAGS': 0, 'LEADS': 0, '_evaluate': _pev})
            try:
                Parent(range(3)).solve(failures='ignore')
            except Exception:  # noqa: BLE001
                pass
            cls = probes.make_scripted(fsic, spec, bases=(Parent,))
            if ctx is not None:
                ctx.probe('class-extends-a-hook-less-class-solved-earlier')
        else:
            cls = probes.make_scripted(fsic, spec)
        if spec.get('mixins'):
            table = probes.mixin_table()
            anyname = (spec['endo'] + spec['exo'] + ['status'])[0]
            attrs = {'ALIASES': {'ALT': anyname, 'ALT2': 'ALT'}} if 'alias' in spec['mixins'] else {}
            cls = type('Mixed', tuple(table[k] for k in spec['mixins']) + (cls,), attrs)
        m = probes.new_scripted_instance(cls, span, spec['init'], **_dtype_kw(spec))
        if spec.get('dtype'):
            assert all(m.__dict__['_' + nm].dtype == {'float32': np.float32, 'int64': np.int64}[spec['dtype']] for nm in spec['endo'] + spec['exo']), 'harness: dtype= not honoured by the scripted class'
        return m, span, list(spec['endo']), list(spec['check']), list(spec['exo'])
    base = probes.build_parser_class(fsic, spec, ctx)
    if base is None:
        raise BuildFailed()
    cls = probes.make_probed(fsic, base)
    via = spec.get('init_via', 'dict')
    if via == 'dict':
        m = probes.new_scripted_instance(cls, span, spec['init'], **({'strict': True} if spec.get('strict') else {}))
    else:
        # through the constructor, as a user would: arrays the caller keeps hold of (and may pass for several variables)
        arrays = {nm: np.array([probes.fval(v) for v in vals], dtype=float) for nm, vals in spec['init'].items()}
        endo_ = [x for x in base.ENDOGENOUS if x in arrays]
        other_ = [x for x in base.NAMES if x not in base.ENDOGENOUS and x in arrays]
        if via == 'kwargs-shared' and endo_ and other_:
            arrays[other_[0]] = arrays[endo_[0]]  # one array object initialises an endogenous and an exogenous variable
        m = cls(span, **arrays)
        ctl = probes.attach_ctl(m)
        ctl.caller_arrays = [(nm, a, a.copy()) for nm, a in arrays.items()]
    return m, span, list(base.ENDOGENOUS), list(base.CHECK), [x for x in base.NAMES if x not in base.ENDOGENOUS]


def solver_kwargs(opts):
    """Options record -> keyword arguments (the record keeps how the catch_first_error flag is spelt)."""
    kw = {k: v for k, v in opts.items() if k != 'cfe_as'}
    how = opts.get('cfe_as', 'bool')
    if how == 'int':
        kw['catch_first_error'] = int(bool(kw['catch_first_error']))
    elif how == 'np':
        kw['catch_first_error'] = np.bool_(kw['catch_first_error'])
    return kw


def count_faults(ctx, log, opts):
    for r in log:
        a = r.get('act')
        if a in ('npwarn', 'pywarn'):
            ctx.fault(a)
        if r.get('exc') and r['exc'] != 'SimInterrupt':
            ctx.fault(f"exception-in-{r['hook']}")
        if r['hook'] == 'eval' and any(not np.isfinite(v) for v in r.get('post_endo', [])):
            if a == 'real':
                ctx.fault('natural-nonfinite')
            elif a == 'set':
                ctx.fault('nonfinite-value')


FINITE_ACTS = ('delta', 'set', 'half', 'npunder', 'noop', 'setx')


def call_is_finite(call):
    n, t = call['n'], call['t']
    tn = t + n if t < 0 else t
    for r in call['log']:
        # scripted seams: what was *planned* decides (an exception out of finite arithmetic is itself a C02 matter);
        # real passes: what was observed
        if r.get('exc') and not (call.get('scripted') and r.get('act') in FINITE_ACTS and call.get('np_err', 'default') == 'default'):
            return False
        if call.get('scripted') and r.get('act') not in FINITE_ACTS:
            return False
        if any(not np.isfinite(v) for v in r.get('post', []) + r.get('post_endo', [])):
            return False
    for nm in call['check'] + call['endo']:
        if not np.isfinite(call['snap'][nm][tn]):
            return False
        off = call['opts']['offset']
        if off and 0 <= tn + off < n and not np.isfinite(call['snap'][nm][tn + off]):
            return False
    for nm in call.get('endo_offset', []):
        off = call['opts']['offset']
        if off and 0 <= tn + off < n and not np.isfinite(call['snap'][nm][tn + off]):
            return False
    if call['opts']['errors'] not in ('raise', 'skip', 'ignore', 'replace'):
        return False
    return True


def _under_ambient_filter(ctx, fn):
    """Run the call with the calling program's own warning filter in place (the solver installs its own while it runs user
    code, whatever the caller has)."""
    amb = getattr(ctx, 'ambient_warnings', None)
    if not amb:
        return fn()
    import warnings as _w

    with _w.catch_warnings():
        _w.simplefilter(amb)
        ctx.probe('ambient-warning-filter:' + amb)
        return fn()


def do_solve(m, span, spec, op, endo, check, exo, ctx, step):
    ctl = probes.get_ctl(m)
    n = len(span)
    t = op['t']
    tn = t + n if t < 0 else t
    snap = ref_solver.snapshot(m)
    ctl.arm(op.get('plan'))
    out = {}
    try:
        kw = solver_kwargs(op['opts'])
        if op.get('pb') is not None:
            kw['progress_bar'] = op['pb']
            ctx.probe('progress-bar-keyword:' + str(op['pb']) + ':' + op['op'])
        if op.get('trace'):
            kw.update(trace=True, reset=True)
            ctx.probe('traced-solve-under-the-judge')
        t_arg = t
        if op.get('np_ints'):
            for k_ in ('min_iter', 'max_iter', 'offset'):
                kw[k_] = np.int64(kw[k_])
            t_arg = np.int64(t)
            ctx.probe('numpy-integer-arguments')
        if op['op'] == 'solve_period':
            label = spans.label_forms(spec['span'], span, tn, op.get('form', 0))
            v = m.solve_period(label, **kw)
        elif op['op'] == 'solve1':
            label = spans.label_forms(spec['span'], span, tn, op.get('form', 0))
            v = m.solve(start=label, end=label, **kw)
            # the multi-period entry point with a one-period range: the period's flag is the third list's only element
            v = v[2][0] if (isinstance(v, tuple) and len(v) == 3 and len(v[2]) == 1) else ('malformed-result', repr(v)[:80])
        else:
            v = _under_ambient_filter(ctx, lambda: m.solve_t(t_arg, **kw))
        out = {'kind': 'return', 'value': v}
    except Exception as e:
        out = {'kind': 'raise', 'exc': e}
    post = ref_solver.snapshot(m)
    neutralise_callbacks(op.get('plan'), snap, post, ctx, tn)
    for what_, res_ in ctl.callbacks:
        ctx.fault('callback-into-library') if res_ == 'ok' else ctx.fault('callback-into-library-raised')
        expected_ = {'copy': 'ok', 'deepcopy': 'ok', 'export': 'ok', 'iter': 'ok', 'rebind': 'ok', 'forward': 'ok', 'nested_solve': 'ok', 'add_variable': 'ok', 'label': 'ok'}
        if what_ in expected_ and spec['span']['type'] not in ('list_dup', 'list_dup_inner', 'np_dup'):
            # what user code meets when it calls back into the library half-way through a solve: a copy can be taken and
            # solved, another period solved, the model exported ... exactly as between two solves
            ok_cb = res_ == expected_[what_]
            for tag_ in ('C02', 'C06'):
                ctx.check(tag_, 'callback/' + what_ + '-fails-inside-a-solve', ok_cb, {'result': res_})
            if what_ == 'copy':
                ctx.check('C11', 'copy-taken-and-solved-inside-a-hook/fails', ok_cb, {'result': res_})
        if what_ == 'bad_call' and spec['span']['type'] not in ('list_dup', 'list_dup_inner', 'np_dup'):
            # a request that is refused between two solves is refused from inside one (bad window: ValueError; no such
            # period, an offset out of the span, a period inside the lag / lead margin: IndexError)
            for tag_ in ('C02', 'C04'):
                ctx.check(tag_, 'callback/refused-request-served-inside-a-solve', res_ in ('ValueError', 'IndexError'), {'result': res_})
        if what_ == 'label_probe':
            # (C10: label access addresses the labelled periods - also from inside a hook, whatever is being solved)
            ctx.check('C10', 'label-access-from-inside-a-hook', not res_.startswith('MISMATCH'), {'result': res_, 't': t, 'span': spec['span']['type'], 'entry': op['op']})
    if op.get('trace'):
        # the tracer's own record is where a traced call writes by design (also the 'start' entry of a call that is
        # then rejected); the frame is about the model's series
        snap.pop('trace', None)
        post.pop('trace', None)
    t_seen = t if op['op'] == 'solve_t' else tn
    call = {
        'opts': op['opts'],
        'n': n,
        't': t_seen,
        'endo': endo,
        'endo_offset': list(ctl.expected_endogenous) if getattr(ctl, 'expected_endogenous', None) is not None else list(endo),
        'check': list(ctl.expected_check) if (spec['kind'] == 'scripted' and ctl.expected_check is not None) else check,
        'drift_name': ((op.get('plan') or {}).get('*') or {}).get('drift', {}).get('name'),
        'exo': exo,
        'snap': snap,
        'post': post,
        'log': list(ctl.log),
        'raised': list(ctl.raised),
        'outcome': out,
        'scripted': spec['kind'] == 'scripted',
        'feasible': True,
        'np_err': ctx.np_err,
        # (the step is taken in the model's dtype only if every check variable has it: NumPy promotes a mixed list)
        'dtype': spec.get('dtype') if all(m.__dict__['_' + nm_].dtype == m.__dict__['dtype'] for nm_ in (ctl.expected_check if ctl.expected_check is not None else check) if ('_' + nm_) in m.__dict__) else None,
        'shorter_than_script': shorter_than_script(spec),
    }
    if spec.get('dtype'):
        ctx.probe('model-dtype:' + spec['dtype'])
    prop = 'C02' if call_is_finite(call) else 'C06'
    ctx.count('calls:' + prop)
    if op['op'] in ('solve_period', 'solve1') and isinstance(out.get('exc'), KeyError) and not ctl.log:
        # the label is an element of the span: it must resolve to its position
        ctx.check(prop, f"solve_period/own-label-rejected/span={spec['span']['type']}", False, {'label': repr(label), 'position': tn})
        ctx.log(step, op['op'], t, 'KeyError-on-own-label')
        ctx.outcome(op['op'], 'KeyError-on-own-label')
        return call, {'end': 'label-rejected'}
    E = ref_solver.judge_single(call, lambda sig, ok, detail=None: ctx.check(prop, sig, ok, detail), ctx.probe)
    for nc in ctl.nested_calls:
        # a solve of another period made by a callback while this one was under way: a solve like any other
        ncall = dict(call, opts=nc['opts'], t=nc['t'], snap=nc['snap'], post=nc['post'], log=nc['log'], raised=nc['raised'], outcome=nc['outcome'], endo_offset=call['endo_offset'], scripted=True)
        if op.get('trace'):
            ncall['snap'].pop('trace', None)
            ncall['post'].pop('trace', None)
        ctx.probe('nested-solve-judged')
        ref_solver.judge_single(ncall, lambda sig, ok, detail=None: ctx.check(prop, 'nested/' + sig, ok, detail), None)
    count_faults(ctx, ctl.log, op['opts'])
    ctx.count('passes', sum(1 for r in ctl.log if r['hook'] == 'eval'))
    ctx.count('hook-calls', sum(1 for r in ctl.log if r['hook'] != 'eval'))
    ctx.count('steps', len(ctl.log))
    cls = out['kind'] if out['kind'] == 'return' else type(out['exc']).__name__
    ctx.log(
        step,
        op['op'],
        t,
        cls,
        canon(out.get('value')),
        [str(x) for x in post['status'].tolist()],
        post['iterations'].tolist(),
        [(r['hook'], r['k'], r['iteration'], r['exc'], r.get('post')) for r in ctl.log],
    )
    ctx.outcome(op['op'], f"{cls}:{E.get('end')}")
    ctx.state([E.get('end'), E.get('k'), op['opts']['errors'], op['opts']['failures'], min(op['opts']['min_iter'], 3), min(op['opts']['max_iter'], 3), len(check)])
    if t < 0:
        ctx.probe('negative-t')
    if op['opts']['max_iter'] == 0:
        ctx.probe('max_iter=0')
    if not check:
        ctx.probe('empty-check-list')
    if op['op'] in ('solve_period', 'solve1'):
        ctx.probe(op['op'] + ':' + spec['span']['type'])
    return call, E


def execute(schedule, ctx):
    fsic = import_fsic()
    spec = schedule['spec']
    ctx.np_err = schedule.get('np_err', 'default')
    ctx.ambient_warnings = schedule.get('ambient_warnings')
    ctx.probe('ambient-numpy-error-state:' + ctx.np_err)
    try:
        m, span, endo, check, exo = build(fsic, spec, ctx)
    except BuildFailed:
        ctx.log('build-failed')
        return
    n = len(span)
    pool = {0: m}
    endos = {}  # per object: the endogenous list likewise (what a non-zero offset copies)
    checks = {}  # per object: the check list as the class declared it and this history has edited it since (harness-side)
    for step, op in enumerate(schedule['ops']):
        ctx.step = step
        who = op.get('obj', 0)
        if who not in pool:
            # a sibling: a second instance of the very same class, on its own span object
            sib = type(pool[0])(spans.make_span(spec['span']), **_dtype_kw(spec))
            for nm, vals in spec['init'].items():
                sib.__dict__['_' + nm][:] = np.array(vals, dtype=np.int64) if spec.get('dtype') == 'int64' else np.array([probes.fval(v) for v in vals], dtype=float)
            probes.attach_ctl(sib)
            pool[who] = sib
            ctx.probe('sibling-instance-in-history')
        m = pool[who]
        if op['op'] == 'copy':
            import copy as _copy

            pool[who] = m.copy() if op['route'] == 'copy' else _copy.deepcopy(m)
            ctx.probe('history:copy')
            ctx.log(step, 'copy')
            ctx.outcome('copy', 'ok')
            continue
        if op['op'] == 'add_variable':
            if op['name'] not in m.__dict__['index']:
                if op.get('dtype') == 'float64':
                    m.add_variable(op['name'], op['v'], dtype=float)  # a variable of a dtype of its own (wider than the model's)
                    if op.get('check'):
                        m.__dict__['check'].append(op['name'])  # ... that the user adds to the convergence check
                        checks[who] = list(checks.get(who, check)) + [op['name']]
                        ctx.probe('check-variable-of-another-dtype-than-the-models')
                else:
                    m.add_variable(op['name'], op['v'])
            ctx.probe('history:add_variable')
            ctx.log(step, 'add_variable')
            ctx.outcome('add_variable', 'ok')
            continue
        if op['op'] == 'edit_endogenous':
            # the instance's own list of endogenous variables (each instance has its own copy of the class's) decides
            # what a non-zero offset copies
            lst = m.endogenous
            want_ = list(endos.get(who, endo))  # (decided on the harness's own account of the list, as for the check list)
            cands = [x for x in spec['endo'] + spec['exo'] if x not in want_] if op['how'] == 'append' else list(want_)
            if cands:
                nm_ = cands[op['k'] % len(cands)]
                if op['how'] == 'append':
                    lst.append(nm_)
                    want_.append(nm_)
                else:
                    if nm_ in lst:
                        lst.remove(nm_)
                    want_.remove(nm_)
                ctx.probe('history:instance-endogenous-' + op['how'])
            endos[who] = want_
            ctx.log(step, 'edit_endogenous', list(want_))
            ctx.outcome('edit_endogenous', 'ok')
            continue
        if op['op'] == 'plain_first':
            def _ev(self, t, **kw):
                self._Y[t] = 0.5 * self._Y[t] + 1.0

            Plain = type('Plain', (fsic.BaseModel,), {'ENDOGENOUS': ['Y'], 'EXOGENOUS': [], 'PARAMETERS': [], 'ERRORS': [], 'NAMES': ['Y'], 'CHECK': ['Y'], 'LAGS': 0, 'LEADS': 0, '_evaluate': _ev})
            try:
                Plain(range(3)).solve(failures='ignore')
                fsic.BaseModel(range(2), strict=False)
            except Exception:  # noqa: BLE001
                pass
            ctx.probe('history:another-hook-less-class-solved-first')
            ctx.log(step, 'plain_first')
            ctx.outcome('plain_first', 'ok')
            continue
        if op['op'] == 'edit_check':
            lst = m.check
            if isinstance(lst, list):
                want_ = list(checks.get(who, check))  # (the edit is decided on the harness's own account of the list)
                if op['how'] == 'assign':
                    pool_ = spec['endo'] + spec['exo']
                    want_ = [pool_[(op['k'] + j_) % len(pool_)] for j_ in range(1 + op['k'] % 2)]
                    m.check = list(want_)
                else:
                    cands = [x for x in spec['endo'] + spec['exo'] if x not in want_] if op['how'] == 'append' else list(want_)
                    if cands:
                        nm_ = cands[op['k'] % len(cands)]
                        if op['how'] == 'append':
                            lst.append(nm_)
                            want_.append(nm_)
                        else:
                            if nm_ in lst:
                                lst.remove(nm_)
                            want_.remove(nm_)
                checks[who] = want_
                ctx.probe('history:instance-check-' + op['how'])
            ctx.log(step, 'edit_check', list(checks.get(who, check)))
            ctx.outcome('edit_check', 'ok')
            continue
        if op['op'] == 'eval':
            # an unrelated container facility used between solves (it installs its own warning filter while it runs)
            expr = op['expr'].replace('{a}', op['a']).replace('{b}', op['b'])
            import warnings as _w

            try:
                with _w.catch_warnings(record=True):  # keep 'always' warnings off stderr
                    m.eval(expr, warnings_=op['warnings_'])
                res = 'ok'
            except Exception as e:
                res = type(e).__name__
            ctx.probe('history:eval:' + ('raised' if res != 'ok' else 'ok'))
            ctx.log(step, 'eval', res)
            ctx.outcome('eval', res)
            continue
        if op['op'] == 'poke':
            if op['name'] in m.__dict__['index'] and 0 <= op['pos'] < n:
                m.__dict__['_' + op['name']][op['pos']] = op['v'] if isinstance(op['v'], int) else probes.fval(op['v'])
                if isinstance(op['v'], str):
                    ctx.fault('preexisting-nonfinite')
                elif spec['kind'] == 'parser':
                    ctx.fault('data-corruption')
            ctx.log(step, 'poke', op['name'], op['pos'], op['v'])
            ctx.outcome('poke', 'ok')
            continue
        probes.get_ctl(m).expected_check = list(checks[who]) if who in checks else None
        probes.get_ctl(m).expected_endogenous = list(endos[who]) if who in endos else None
        do_solve(m, span, spec, op, endo, check, exo, ctx, step)


def simplify(schedule):
    """Operand simplification candidates for the shrinker."""
    import copy

    for i, op in enumerate(schedule['ops']):
        if op['op'] in ('solve_t', 'solve_period', 'solve1'):
            for key, val in (('offset', 0), ('min_iter', 0), ('failures', 'ignore'), ('catch_first_error', False)):
                if op['opts'].get(key) != val:
                    c = copy.deepcopy(schedule)
                    c['ops'][i]['opts'][key] = val
                    if key == 'min_iter' or c['ops'][i]['opts']['min_iter'] <= c['ops'][i]['opts']['max_iter']:
                        yield c
            if op['op'] in ('solve_period', 'solve1'):
                c = copy.deepcopy(schedule)
                c['ops'][i]['op'] = 'solve_t'
                yield c
            if op['t'] < 0:
                c = copy.deepcopy(schedule)
                c['ops'][i]['t'] = op['t'] + schedule['spec']['span']['n']
                yield c
            p = op.get('plan', {}).get('*')
            if p:
                for hk in ('before', 'after'):
                    if hk in p:
                        c = copy.deepcopy(schedule)
                        del c['ops'][i]['plan']['*'][hk]
                        yield c
                ps = p.get('passes', [])
                if len(ps) > op['opts']['max_iter'] and ps:
                    c = copy.deepcopy(schedule)
                    c['ops'][i]['plan']['*']['passes'] = ps[: max(op['opts']['max_iter'], 0)]
                    yield c
    sp = schedule['spec']['span']
    if sp['type'] != 'range':
        c = copy.deepcopy(schedule)
        c['spec']['span']['type'] = 'range'
        yield c
