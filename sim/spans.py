"""Span construction from JSON-able specs. A spec is {'type': ..., 'n': int, 'origin': int}.

`labels(spec)` gives, per position, the label object(s) that address exactly that
position (the element itself, plus its exact string form for pandas time indexes).
"""
import numpy as np

TYPES = [
    'range',
    'range_step',
    'list_int',
    'list_str',
    'list_str_sp',
    'list_mixed',
    'list_numstr',
    'list_date',
    'np_int',
    'np_str',
    'pd_index_int',
    'pd_index_str',
    'pd_period_y',
    'pd_period_q',
    'pd_datetime',
]
PANDAS_TYPES = {'pd_index_int', 'pd_index_str', 'pd_period_y', 'pd_period_q', 'pd_datetime'}

_MIXED = ['a', 7, (1, 2), '', 3.5, ('k',), 0, 'Q', 11, (0,), 'mm', -2]


def _numstr(j):
    return (2000 + j if j % 4 == 0 else j + 0.5) if j % 2 == 0 else f's{j}'


ORDERABLE = {'list_int', 'list_str', 'list_str_sp', 'np_int', 'np_str', 'pd_index_int', 'pd_index_str'}


def _reorder(items, how):
    """Labels need not come in sorted order: descending, or in no order at all (a fixed permutation)."""
    n = len(items)
    if how == 'desc':
        return items[::-1]
    if how == 'shuffle' and n > 2:
        k = next(c for c in (7, 5, 3, 11, 13) if n % c)
        return [items[(i * k + 1) % n] for i in range(n)]
    if how == 'swap' and n >= 5:
        # in order but for two neighbours in the interior (the ends, and the first step, look regular)
        out = list(items)
        j = n // 2
        out[j], out[j + 1 if j + 1 < n - 1 else j - 1] = out[j + 1 if j + 1 < n - 1 else j - 1], out[j]
        return out
    return items


def make_span(spec):
    if spec.get('order') and spec['type'] in ORDERABLE:
        plain = make_span({k_: v_ for k_, v_ in spec.items() if k_ != 'order'})
        items = _reorder([plain[i] for i in range(len(plain))], spec['order'])
        if spec['type'].startswith('list'):
            return list(items)
        if spec['type'].startswith('np'):
            return np.array([x.item() if hasattr(x, 'item') else x for x in items])
        import pandas as pd

        return pd.Index(items)
    ty, n, o = spec['type'], spec['n'], spec.get('origin', 0)
    if ty == 'range':
        return range(o, o + n)
    if ty == 'range_step':
        st = spec.get('step', 2)
        return range(o, o + n * st, st)
    if ty == 'list_int':
        return list(range(o, o + n))
    if ty == 'list_str':
        return [f'p{o + i}' for i in range(n)]
    if ty == 'list_str_sp':
        return [f'Q{(o + i) % 4 + 1} {2000 + (o + i) // 4}' for i in range(n)]  # labels with a space in them
    if ty == 'list_dup_inner':
        # a label repeated strictly inside the span (first and last labels stay unique); positional solving is unaffected
        items = [f'p{o + i}' for i in range(n)]
        if n >= 4:
            items[n // 2] = items[n // 2 - 1]
        return items
    if ty == 'np_dup':
        # a NumPy array span in which one label occurs twice (positions 1 and n - 2); first and last labels are unique
        items = [f'p{o + i}' for i in range(n)]
        if n >= 5:
            items[n - 2] = items[1]
        return np.array(items)
    if ty == 'list_dup':
        # a whole cycle of labels repeated, like quarters over several years: only positions identify a period
        return [f'q{i % 4}' for i in range(n)]
    if ty == 'list_mixed':
        return [_MIXED[(o + i) % len(_MIXED)] if i < len(_MIXED) else ('more', i) for i in range(n)]
    if ty == 'list_numstr':
        # numbers and strings only (nothing that would stop NumPy turning the whole list into strings)
        return [_numstr(o + i) for i in range(n)]
    if ty == 'list_date':
        import datetime

        return [datetime.date(2000, 1, 1) + datetime.timedelta(days=o + i) for i in range(n)]
    if ty == 'np_int':
        return np.arange(o, o + n)
    if ty == 'np_str':
        return np.array([f'p{o + i}' for i in range(n)])
    import pandas as pd

    if ty == 'pd_index_int':
        return pd.Index(list(range(o, o + n)))
    if ty == 'pd_index_str':
        return pd.Index([f'p{o + i}' for i in range(n)])
    if ty == 'pd_period_y':
        return pd.period_range(start=str(1990 + o), periods=n, freq='Y')
    if ty == 'pd_period_q':
        return pd.period_range(start=f'{1990 + o}Q{1 + (o % 4)}', periods=n, freq='Q')
    if ty == 'pd_datetime':
        return pd.date_range(start=f'{1990 + o % 30}-01-{1 + o % 20:02d}', periods=n, freq='D')
    raise ValueError(ty)


def elements(span):
    """List of the span's label objects, in order."""
    return [span[i] for i in range(len(span))]


def label_forms(spec, span, pos, form=0):
    """A label addressing exactly position `pos`. form 0: the element; form 1: exact string form (time indexes only)."""
    el = span[pos]
    if form == 1 and spec['type'] == 'pd_datetime':
        # other spellings of the same instant: they compare equal to the element, so they are the same label
        k = pos % 4
        if k == 1:
            return el.to_datetime64()
        if k == 2:
            return el.to_datetime64().astype('datetime64[D]') if el == el.normalize() else el.to_datetime64()
        if k == 3:
            return el.to_pydatetime()
        return str(el)
    if form == 1 and spec['type'] in ('pd_period_y', 'pd_period_q'):
        return str(el)
    if form == 1 and spec['type'] in ('range', 'range_step', 'list_int', 'pd_index_int'):
        return np.int64(el)  # a NumPy scalar that equals the label (as positions computed with NumPy are)
    if form == 1 and spec['type'] in ('list_str', 'pd_index_str'):
        return np.str_(el)
    if isinstance(el, np.generic):
        # a NumPy scalar read back from an array span; the plain Python value is the same label
        return el.item() if form == 1 else el
    return el


def absent_label(spec, variant=0, span=None):
    """A label that is not in the span. variant 0: far away; 1: a near miss of an existing label (same type family:
    x + 0.5 for numbers, label + 'z' for strings); 2: the right spelling in the wrong type ('3' for 3, 0 for 'p0')."""
    ty = spec['type']
    if variant == 3:
        # a label of a kind the span's own lookup may refuse outright (still simply "not in the span")
        if ty == 'pd_datetime':
            import datetime

            return datetime.timedelta(days=1)
        return (2000, 1)
    if variant and span is not None and len(span):
        first = span[min(1, len(span) - 1)]
        if isinstance(first, np.generic):
            first = first.item()
        if ty == 'pd_datetime':
            import datetime

            # an absent timestamp inside a present day: must not be rounded onto that day's period
            return first + (first - first) + __import__('pandas').Timedelta(hours=12) if variant == 1 else first.to_pydatetime() + datetime.timedelta(seconds=1)
        if ty == 'list_date':
            import datetime

            return span[-1] + datetime.timedelta(days=1) if variant == 1 else str(first)
        if ty == 'list_mixed':
            return 'az' if variant == 1 else 7.5
        if ty == 'list_numstr':
            # the string spelling of a numeric label, and the number spelt by a string label
            nums = [x for x in span if not isinstance(x, str)]
            if variant == 1 and nums:
                return str(nums[-1])
            return str(nums[0]) if nums else int(first[1:])
        if isinstance(first, int) and not isinstance(first, bool):
            return first + 0.5 if variant == 1 else str(first)
        if isinstance(first, str):
            return first + 'z' if variant == 1 else 0
        return str(first) + 'z' if variant == 1 else 3
    if ty == 'range_step':
        return spec.get('origin', 0) + 1  # between two labels of the stepped range
    if ty in ('range', 'list_int', 'np_int', 'pd_index_int'):
        return spec.get('origin', 0) + spec['n'] + 5
    if ty in ('list_str', 'np_str', 'pd_index_str', 'list_mixed', 'list_numstr'):
        return 'nope'
    if ty == 'list_date':
        import datetime

        return datetime.date(1971, 3, 4)
    if ty in ('pd_period_y', 'pd_period_q'):
        return '1971'
    return '1971-03-04'


def describe(span):
    return [type(span).__name__] + [f'{type(x).__name__}:{x}' for x in elements(span)]
