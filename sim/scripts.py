"""Seeded generator of small model scripts (workload only; nothing is claimed about the parser).

Grammar: 1..max_eq equations `V = term (+|-) term ...`, term = [coef *] atom | atom / atom | f(atom) | f(atom, const),
atom = NAME | NAME[-k] | NAME[+k] | {param} | <err> | const; f in {log, exp, max, min}. No verbatim code, no
conditional expressions, plain left-hand sides. The generator's own term list is the ground truth for which
(name, offset) pairs an evaluation may read.
"""

ENDO = ['A', 'B', 'C', 'D', 'E1', 'F1', 'G1', 'H1', 'I1', 'J1', 'K1', 'L1']
EXO = ['X', 'Z', 'W']
PARAMS = ['a', 'b']
ERRS = ['e']
COEFS = ['0.5', '0.25', '0.125', '2', '1.5', '0.75', '1']


def _idx(off):
    if off == 0:
        return ''
    return f'[{off}]' if off < 0 else f'[+{off}]' if off % 2 else f'[{off}]'


FANCY = {
    'A': ['is_open', 'Alpha_1', 'not_A', 'exp_rate', 'a_very_long_variable_name_for_output'],
    'B': ['Pin', 'or_B', 'log_b', 'B2', 'b_'],
    'C': ['if_C', 'C_c', 'max_c', 'lambda_', 'Cons'],
    'D': ['None_d', 'D1', 'min_d', 'and_D', 'dd'],
    'X': ['in_X', 'X_1', 'abs_x', 'Yield', 'match'],
    'Z': ['else_Z', 'IS', 'sqrt_z', 'type', 'np_z'],
    'W': ['while_W', 'IMPORT', 'w2', 'case', 'self_w'],
    'a': ['alpha_1', 'is_a', 'a1', 'for_a', 'aa'],
    'b': ['beta', 'not_b', 'b_2', 'in_b', 'bb'],
    'e': ['err_1', 'if_err', 'e_', 'eps', 'or_e'],
}


def gen_program(rng, max_eq=4, max_lag=3, max_lead=3, allow_funcs=True, labels=None):
    prog = _gen_program(rng, max_eq, max_lag, max_lead, allow_funcs, labels)
    if rng.random() < 0.35:
        # the same program under other names: several letters, digits, underscores, prefixes that are Python keywords or the
        # names of functions the parser knows (whole-word substitution on a script made of single-letter names)
        import re

        k = rng.randrange(5)
        ren = {nm: FANCY[nm][k] for nm in prog['names'] if nm in FANCY}
        pat = re.compile(r'(?<![A-Za-z0-9_.])(' + '|'.join(sorted(map(re.escape, ren), key=len, reverse=True)) + r')(?![A-Za-z0-9_(])') if ren else None
        if pat is not None:
            prog['script'] = pat.sub(lambda m: ren[m.group(1)], prog['script'])
            prog['endo'] = [ren.get(x, x) for x in prog['endo']]
            prog['names'] = [ren.get(x, x) for x in prog['names']]
            prog['reads'] = {ren.get(k_, k_): v_ for k_, v_ in prog['reads'].items()}
            prog['params'] = [ren.get(x, x) for x in prog['params']]
            prog['errs'] = [ren.get(x, x) for x in prog['errs']]
            prog['order'] = [ren.get(x, x) for x in prog['order']]
            lt = prog['label_terms']
            prog['label_terms'] = {'reads': [[ren.get(a, a), b] for a, b in lt['reads']], 'slices': [[ren.get(a, a), b, c] for a, b, c in lt['slices']], 'lhs': [[ren.get(a, a), b] for a, b in lt['lhs']]}
    prog['declared'] = declared_names(prog)
    return prog


def declared_names(prog):
    """The variable list a model built from the script declares: endogenous, exogenous, parameters, errors - each group in
    order of first appearance in the script."""
    order = prog['order']
    endo, params, errs = set(prog['endo']), set(prog['params']), set(prog['errs'])
    return [x for x in order if x in endo] + [x for x in order if x not in endo and x not in params and x not in errs] + [x for x in order if x in params] + [x for x in order if x in errs]


def _gen_program(rng, max_eq=4, max_lag=3, max_lead=3, allow_funcs=True, labels=None):
    n_eq = rng.randint(1, max_eq)
    label_terms = {'reads': [], 'slices': [], 'lhs': []}  # terms that address a period by its label, whatever t is
    endo = ENDO[:n_eq]
    rich = rng.random() < 0.4  # parentheses, powers, unary minus, conditional expressions, other functions, layout
    reads = {}
    order = []  # first-appearance order is not needed; names are taken from the built class
    lines = []

    def note(name, off):
        reads.setdefault(name, set()).add(off)
        if name not in order:
            order.append(name)

    def atom(allow_const=True):
        r = rng.random()
        if r < 0.45:
            nm = rng.choice(endo)
            off = rng.choice([0, 0, -1, -1, -2, -max_lag, 1, max_lead]) if (max_lag or max_lead) else 0
            off = max(-max_lag, min(max_lead, off))
            note(nm, off)
            return nm + _idx(off)
        if r < 0.75:
            nm = rng.choice(EXO)
            off = rng.choice([0, 0, 0, -1, 1, -max_lag, max_lead])
            off = max(-max_lag, min(max_lead, off))
            note(nm, off)
            return nm + _idx(off)
        if r < 0.85:
            nm = rng.choice(PARAMS)
            off = rng.choice([0, 0, 0, -1, -max_lag, max_lead])
            off = max(-max_lag, min(max_lead, off))
            note(nm, off)
            return '{' + nm + '}' + _idx(off)
        if r < 0.9:
            nm = rng.choice(ERRS)
            off = rng.choice([0, 0, -1, 1, -max_lag, max_lead])  # the deepest lag / furthest lead may sit on an error term only
            off = max(-max_lag, min(max_lead, off))
            note(nm, off)
            return '<' + nm + '>' + _idx(off)
        if allow_const:
            return rng.choice(COEFS)
        nm = rng.choice(EXO)
        note(nm, 0)
        return nm

    def term():
        if rich:
            q = rng.random()
            if q < 0.12:
                return f'({term_plain()} + {term_plain()})'
            if q < 0.2:
                return f'({atom(False)}) ** 2'
            if q < 0.28:
                return f'-{atom(False)}'
            if q < 0.34 and allow_funcs:
                return f'abs({atom(False)})'
            if q < 0.4 and allow_funcs:
                return f'np.sqrt(abs({atom(False)}))'
            if q < 0.48:
                return f'({atom(False)} if {atom(False)} > {rng.choice(COEFS)} else {atom(False)})'
        return term_plain()

    def term_plain():
        r = rng.random()
        if r < 0.45:
            return f'{rng.choice(COEFS)} * {atom(False)}'
        if r < 0.6:
            return atom()
        if r < 0.75:
            return f'{atom()} / {atom(False)}'
        if allow_funcs and r < 0.82:
            return f'log({atom(False)})'
        if allow_funcs and r < 0.87:
            return f'exp({atom(False)})'
        if allow_funcs and r < 0.94:
            fn = 'max'
        elif allow_funcs:
            fn = 'min'
        else:
            return atom()
        q = rng.random()
        if q < 0.5:
            return f'{fn}({atom(False)}, {rng.choice(COEFS)})'
        if q < 0.75:
            return f'{fn}({rng.choice(COEFS)}, {atom(False)})'  # the constant first
        return f'{fn}({atom(False)}, {rng.choice(COEFS)}, {atom(False)})'  # three arguments

    with_labels = rng.randrange(len(endo)) if labels else None
    for iv, v in enumerate(endo):
        note(v, 0)
        k = rng.randint(1, 3)
        expr = term()
        for _ in range(k - 1):
            expr += rng.choice([' + ', ' + ', ' - ']) + term()
        if iv == with_labels:
            # a term that reads a fixed period by its (quoted) label, and perhaps the mean over a label slice
            ex = rng.choice(EXO)
            lab = rng.choice(labels)
            reads.setdefault(ex, set())
            if ex not in order:
                order.append(ex)
            expr += f" + {ex}['{lab}']"
            label_terms['reads'].append([ex, lab])
            if rng.random() < 0.5 and len(labels) >= 2:
                ia, ib = sorted(rng.sample(range(len(labels)), 2))
                ex2 = rng.choice(EXO)
                reads.setdefault(ex2, set())
                if ex2 not in order:
                    order.append(ex2)
                expr += f" + np.mean({ex2}['{labels[ia]}':'{labels[ib]}'])"
                label_terms['slices'].append([ex2, labels[ia], labels[ib]])
        if rich and rng.random() < 0.3 and ' + ' in expr:
            # a statement spread over several lines inside parentheses, with a comment
            head, tail = expr.split(' + ', 1)
            lines.append(f'{v} = ({head}\n      + {tail})  # {v}, spread over two lines')
        else:
            eq = ' = ' if not rich or rng.random() < 0.8 else rng.choice(['=', ' =', '= ', '\t=\t'])
            lines.append(f'{v}{eq}{expr}' + (rng.choice(['  # a comment', '  # see note #2 above, formerly item #7']) if rich and rng.random() < 0.25 else ''))
        if rich and rng.random() < 0.2:
            lines.append('')
    endo = list(endo)
    # (the grammar's left-hand side is one run of non-blank characters: a label with a blank in it cannot stand there)
    lhs_labels = [x for x in (labels or []) if not any(c.isspace() for c in x)]
    if lhs_labels and rng.random() < 0.4:
        # an equation whose left-hand side is a labelled period: it assigns that period, whichever period is being solved
        lab = rng.choice(lhs_labels)
        ex = rng.choice(EXO)
        note('Q1', 0)
        reads['Q1'] = set()
        note(ex, 0)
        lines.append(f"Q1['{lab}'] = 0.5 * {ex}")
        endo.append('Q1')
        label_terms['lhs'].append(['Q1', lab])
    lags = max([0] + [-o for s in reads.values() for o in s])
    leads = max([0] + [o for s in reads.values() for o in s])
    names = [x for x in endo] + [x for x in order if x not in endo]
    return {
        'script': '\n'.join(lines),
        'endo': list(endo),
        'names': names,
        'reads': {k: sorted(v) for k, v in sorted(reads.items())},
        'lags': lags,
        'leads': leads,
        'params': [x for x in names if x in PARAMS],
        'errs': [x for x in names if x in ERRS],
        'order': list(order),
        'label_terms': label_terms,
    }


def gen_data(rng, prog, n):
    vals = [0.5, 1.0, 1.5, 2.0, 0.25, 3.0, 0.75]
    out = {}
    for nm in prog['names']:
        if nm in prog.get('params', PARAMS):
            v = rng.choice([0.25, 0.5, 0.125, 0.75])
            out[nm] = [v] * n
        elif nm in prog.get('errs', ERRS):
            out[nm] = [rng.choice([0.0, 0.0, 0.125, -0.125]) for _ in range(n)]
        else:
            out[nm] = [rng.choice(vals) for _ in range(n)]
    return out
