"""Seeded generator of small model scripts (workload only; nothing is claimed about the parser).

Grammar: 1..max_eq equations `V = term (+|-) term ...`, term = [coef *] atom | atom / atom | f(atom) | f(atom, const),
atom = NAME | NAME[-k] | NAME[+k] | {param} | <err> | const; f in {log, exp, max, min}. No verbatim code, no
conditional expressions, plain left-hand sides. The generator's own term list is the ground truth for which
(name, offset) pairs an evaluation may read.
"""

ENDO = ['A', 'B', 'C', 'D']
EXO = ['X', 'Z', 'W']
PARAMS = ['a', 'b']
ERRS = ['e']
COEFS = ['0.5', '0.25', '0.125', '2', '1.5', '0.75', '1']


def _idx(off):
    if off == 0:
        return ''
    return f'[{off}]' if off < 0 else f'[+{off}]' if off % 2 else f'[{off}]'


def gen_program(rng, max_eq=4, max_lag=3, max_lead=3, allow_funcs=True):
    n_eq = rng.randint(1, max_eq)
    endo = ENDO[:n_eq]
    reads = {}
    order = []  # first-appearance order is not needed; names are taken from the built class
    lines = []

    def note(name, off):
        reads.setdefault(name, set()).add(off)
        if name not in order:
            order.append(name)

    def atom(allow_const=True):
        r = rng.random()
        if r < 0.45:
            nm = rng.choice(endo)
            off = rng.choice([0, 0, -1, -1, -2, -max_lag, 1, max_lead]) if (max_lag or max_lead) else 0
            off = max(-max_lag, min(max_lead, off))
            note(nm, off)
            return nm + _idx(off)
        if r < 0.75:
            nm = rng.choice(EXO)
            off = rng.choice([0, 0, 0, -1, 1, -max_lag, max_lead])
            off = max(-max_lag, min(max_lead, off))
            note(nm, off)
            return nm + _idx(off)
        if r < 0.85:
            nm = rng.choice(PARAMS)
            off = rng.choice([0, 0, 0, -1, -max_lag, max_lead])
            off = max(-max_lag, min(max_lead, off))
            note(nm, off)
            return '{' + nm + '}' + _idx(off)
        if r < 0.9:
            nm = rng.choice(ERRS)
            off = rng.choice([0, 0, -1, 1, -max_lag, max_lead])  # the deepest lag / furthest lead may sit on an error term only
            off = max(-max_lag, min(max_lead, off))
            note(nm, off)
            return '<' + nm + '>' + _idx(off)
        if allow_const:
            return rng.choice(COEFS)
        nm = rng.choice(EXO)
        note(nm, 0)
        return nm

    def term():
        r = rng.random()
        if r < 0.45:
            return f'{rng.choice(COEFS)} * {atom(False)}'
        if r < 0.6:
            return atom()
        if r < 0.75:
            return f'{atom()} / {atom(False)}'
        if allow_funcs and r < 0.82:
            return f'log({atom(False)})'
        if allow_funcs and r < 0.87:
            return f'exp({atom(False)})'
        if allow_funcs and r < 0.94:
            return f'max({atom(False)}, {rng.choice(COEFS)})'
        if allow_funcs:
            return f'min({atom(False)}, {rng.choice(COEFS)})'
        return atom()

    for v in endo:
        note(v, 0)
        k = rng.randint(1, 3)
        expr = term()
        for _ in range(k - 1):
            expr += rng.choice([' + ', ' + ', ' - ']) + term()
        lines.append(f'{v} = {expr}')
    lags = max([0] + [-o for s in reads.values() for o in s])
    leads = max([0] + [o for s in reads.values() for o in s])
    names = [x for x in endo] + [x for x in order if x not in endo]
    return {
        'script': '\n'.join(lines),
        'endo': list(endo),
        'names': names,
        'reads': {k: sorted(v) for k, v in sorted(reads.items())},
        'lags': lags,
        'leads': leads,
    }


def gen_data(rng, prog, n):
    vals = [0.5, 1.0, 1.5, 2.0, 0.25, 3.0, 0.75]
    out = {}
    for nm in prog['names']:
        if nm in PARAMS:
            v = rng.choice([0.25, 0.5, 0.125, 0.75])
            out[nm] = [v] * n
        elif nm in ERRS:
            out[nm] = [rng.choice([0.0, 0.0, 0.125, -0.125]) for _ in range(n)]
        else:
            out[nm] = [rng.choice(vals) for _ in range(n)]
    return out
