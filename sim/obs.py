"""Observation function: everything about an fsic object that a user can see, as canonical JSON-able data.

Read straight from __dict__ (never through fsic's own accessors, which are under test), so that two objects are
indistinguishable iff their observations are equal. No addresses, no set iteration.
"""
import numpy as np

from .kernel import canon

CLASS_ATTRS = ['ENDOGENOUS', 'EXOGENOUS', 'PARAMETERS', 'ERRORS', 'NAMES', 'CHECK', 'LAGS', 'LEADS', 'ALIASES', 'PREFERRED_NAMES', 'TRACE_VARIABLES']


def obs_span(span):
    try:
        items = [span[i] for i in range(len(span))]
    except Exception:
        items = list(span)
    return [type(span).__name__] + [f'{type(x).__name__}:{x}' for x in items]


def obs_value(v):
    if isinstance(v, np.ndarray):
        return obs_series(v)
    if isinstance(v, (list, tuple)):
        return [type(v).__name__] + [obs_value(x) for x in v]
    if isinstance(v, dict):
        return {'dict': [[str(k), obs_value(x)] for k, x in v.items()]}
    if isinstance(v, (str, int, float, bool)) or v is None:
        return canon(v)
    if isinstance(v, np.generic):
        return canon(v.item())
    if isinstance(v, type):
        return f'<class {v.__name__}>'
    if isinstance(v, np.dtype):
        return f'<dtype {v}>'
    if type(v).__name__ == 'Trace':
        return obs_trace(v)
    if hasattr(v, '__dict__') and 'span' in getattr(v, '__dict__', {}):
        return obs(v)
    return f'<{type(v).__name__}>'


def obs_trace(t):
    return {'trace-names': list(map(str, t.names)), 'labels': [str(x) for x in t.index], 'values': obs_series(np.asarray(t.values))}


def obs_series(arr):
    if arr.dtype.kind == 'O':
        vals = [obs_value(x) for x in arr.ravel().tolist()]
    else:
        vals = canon(arr.ravel().tolist())
    out = {'dtype': str(arr.dtype), 'shape': list(arr.shape), 'v': vals}
    if not arr.flags.writeable:
        out['read-only'] = True  # (a series the user can no longer assign into is not the series it was)
    return out


def obs(x):
    d = x.__dict__
    out = {
        'class': type(x).__name__,
        'span': obs_span(d['span']),
        'index': list(d['index']),
        'strict': bool(d['_strict']),
        'attributes': list(d['_attributes']),
        'series': {nm: obs_series(d['_' + nm]) for nm in d['index'] if ('_' + nm) in d},
        'attrs': {},
    }
    for a in d['_attributes']:
        if a in ('_attributes', 'span', 'index', '_strict'):
            continue
        if a in d:
            out['attrs'][a] = obs_value(d[a])
    for k in ('aliases', 'preferred_names', 'name', '_LAGS', '_LEADS'):
        if k in d:
            out['attrs'][k] = obs_value(d[k])
    if 'submodels' in d:
        out['submodels'] = [[str(k), obs(v)] for k, v in d['submodels'].items()]
    # keys that are neither series nor registered attributes (storage that should not exist)
    known = set(['span', 'index', '_strict', '_attributes', 'submodels', 'name', '_LAGS', '_LEADS', 'aliases', 'preferred_names', '_ctl'])
    known |= set(d['_attributes']) | {'_' + nm for nm in d['index']}
    out['extra_keys'] = sorted(k for k in d if k not in known)
    return out


def obs_class(cls):
    out = {}
    for a in CLASS_ATTRS:
        if a in ('LAGS', 'LEADS') and isinstance(getattr(type(cls), a, None), property):
            continue
        v = cls.__dict__.get(a, getattr(cls, a, None)) if not isinstance(getattr(cls, a, None), property) else None
        out[a] = obs_value(v)
    return out


def diff(a, b, path=''):
    """First few paths at which two observations differ."""
    out = []
    if type(a) is not type(b):
        return [path or '/']
    if isinstance(a, dict):
        for k in sorted(set(a) | set(b)):
            if k not in a or k not in b:
                out.append(f'{path}/{k}')
            else:
                out.extend(diff(a[k], b[k], f'{path}/{k}'))
            if len(out) > 6:
                break
        return out
    if isinstance(a, list):
        if len(a) != len(b):
            return [f'{path}[len {len(a)} vs {len(b)}]']
        for i, (x, y) in enumerate(zip(a, b)):
            out.extend(diff(x, y, f'{path}[{i}]'))
            if len(out) > 6:
                break
        return out
    return [] if a == b else [path or '/']
