"""R-container: a trivial reference for VectorContainer / ModelInterface data handling (C09, C10, C12).

The reference holds {name: 1-D ndarray} in declaration order plus the span's label list. NumPy is trusted (the
reference casts and broadcasts with NumPy itself); fsic is not. Every operation gets a three-way expectation:
  ('ok', new_array)   MUST-SUCCEED with these contents
  ('fail', None)      MUST-FAIL: some exception, object observationally unchanged
  ('may', None)       either of the two; after success the invariants must hold and the reference is resynchronised
"""
import numpy as np

DTYPES = {'float': float, 'int': int, 'bool': bool, 'str': '<U1', 'uint': np.uint32}


class InjectedSourceError(Exception):
    """Raised by a faulty operand (the caller's data source failing while it is being read)."""


class Faulty:
    """An operand that is read lazily and fails part-way: the analogue of an I/O error in the caller's data source.

    mode 'getitem': a sequence-like (only __len__ / __getitem__) whose element `at` cannot be read;
    mode 'seq': the same, registered as a collections.abc.Sequence; mode 'array': __array__ raises; mode 'len': __len__
    raises. `at` None: the source works (control). `fired` counts the injected errors actually raised.
    """

    def __init__(self, items, mode, at):
        self.items, self.mode, self.at, self.fired = list(items), mode, at, 0
        self.cb, self.where, self.called = None, None, 0
        self.effects, self.applied = [], 0  # writes the callback made on its own account: (kind, name, ...)

    def __deepcopy__(self, memo):
        # (an operand the library chose to store as an element is copied with it: the copy is a plain data source, with no
        # way back to the harness's objects)
        return type(self)(list(self.items), self.mode, self.at)

    def _callback(self):
        """Re-entrant use: while the library is reading this operand, the operand reads from the very object that is being
        assigned to (as a data source backed by the same container would). Read-only: the assignment under way is all
        that may change."""
        obj = (self.where or {}).get('obj')
        if self.cb is None or obj is None or self.called >= 2:
            return
        self.called += 1
        try:
            if self.cb == 'copy':
                obj.copy()
            elif self.cb == 'values':
                obj.values  # noqa: B018
            elif self.cb == 'frame':
                obj.to_dataframe()
            elif self.cb == 'read':
                d = obj.__dict__
                for nm in list(d['index'])[:3]:
                    obj[nm]  # noqa: B018
                    if len(d['span']):
                        obj[nm, d['span'][0]]  # noqa: B018
            elif self.cb == 'eval':
                obj.eval('1 + 1')
            elif self.cb == 'reindex':
                obj.reindex(obj.__dict__['span'])
            elif self.cb in ('w_scalar', 'w_cell', 'w_add', 'w_same') and self.called == 1:
                # ... and writes to it: a complete operation of its own, made while the outer one is half-way
                w = self.where
                val = float(7000 + w.get('serial', 0))
                if self.cb == 'w_scalar' and w.get('cbvar'):
                    if w.get('via') == 'item':
                        obj[w['cbvar']] = val
                    else:
                        setattr(obj, w['cbvar'], val)
                    self.effects.append(('scalar', w['cbvar'], val))
                elif self.cb == 'w_cell' and w.get('cbvar') and w.get('cblabel') is not None:
                    obj[w['cbvar'], w['cblabel'][1]] = val
                    self.effects.append(('cell', w['cbvar'], w['cblabel'][0], val))
                elif self.cb == 'w_same' and w.get('same'):
                    nm, pos, lab = w['same']
                    obj[nm, lab] = val
                    self.effects.append(('cell', nm, pos, val))
                elif self.cb == 'w_add':
                    nm = 'RE%d' % w.get('serial', 0)
                    if nm not in obj.__dict__['index']:
                        obj.add_variable(nm, 0.5)
                        self.effects.append(('add', nm))
        except Exception:
            pass  # the data source's own try / except

    def _boom(self, what):
        self.fired += 1
        raise InjectedSourceError(f'injected: data source failed in {what}')

    def __len__(self):
        self._callback()
        if self.mode == 'len' and self.at is not None:
            self._boom('__len__')
        return len(self.items)

    def __getitem__(self, i):
        if isinstance(i, slice):
            return [self[j] for j in range(*i.indices(len(self.items)))]
        if i < 0:
            i += len(self.items)
        if not 0 <= i < len(self.items):
            raise IndexError(i)
        if i == 1 or len(self.items) == 1:
            self._callback()
        if self.mode in ('getitem', 'seq') and self.at is not None and i == self.at:
            self._boom('__getitem__')
        return self.items[i]


class FaultyArray(Faulty):
    def __array__(self, dtype=None, copy=None):
        self._callback()
        if self.at is not None:
            self._boom('__array__')
        return np.array(self.items, dtype=dtype)


from collections.abc import Sequence as _Sequence  # noqa: E402


class FaultySeq(Faulty, _Sequence):
    pass


def make_value(vs, n, tiny=False):
    """Build the Python operand described by a value spec. Element i of a sequence is derived from base + i."""
    k = vs['k']
    base = vs.get('base', 0)

    def el(i):
        e = vs.get('e', 'float')
        x = base + i
        if e == 'float':
            return float(x) + 0.5
        if e == 'int':
            return int(x)
        if e == 'bigint':
            return 2**53 + 1 + 2 * int(x)  # not representable in float64
        if e == 'float01':
            return float(x % 2)  # 0.0 / 1.0: equal to the int 0 / 1 and to False / True, and of another type
        if e == 'int01':
            return int(x % 2)
        if e == 'bool':
            return bool(x % 2)
        if e == 'str':
            return chr(97 + x % 26)
        if e == 'longstr':
            return 'w' + str(x)
        if e == 'none':
            return None
        if e == 'nan':
            return float('nan')
        raise ValueError(e)

    def ln(spec):
        if spec == 'n':
            return n
        if spec == 'n+1':
            return n + 1
        if spec == 'n-1':
            return n - 1
        return int(spec)

    if k == 'scalar':
        return el(0)
    if k == 'seq':
        L = max(0, ln(vs['len']))
        c = vs['c']
        if c == 'range':
            return range(base, base + L)
        items = [el(i) for i in range(L)]
        if vs.get('tail') and items:
            # right length, but the LAST element cannot be stored (so a careless element-by-element write gets most of the way)
            items[-1] = 'n/a' if vs['tail'] == 'bad' else None
        if c == 'list':
            return items
        if c == 'tuple':
            return tuple(items)
        if c == 'ndarray':
            return np.array(items) if items else np.array([], dtype=float)
        if c == 'ndview':
            # a non-contiguous view into a larger array
            big = np.array([x for it in items for x in (it, it)]) if items else np.array([], dtype=float)
            return big[::2]
        if c == 'readonly':
            a = np.array(items) if items else np.array([], dtype=float)
            a.setflags(write=False)
            return a
        if c.startswith('faulty-'):
            mode = c.split('-', 1)[1]
            at = vs.get('at')
            if at is not None:
                at = at % max(1, L)
            cls = {'array': FaultyArray, 'seq': FaultySeq}.get(mode, Faulty)
            return cls(items, mode, at)
        if c == 'series':
            import pandas as pd

            if vs.get('e') in ('str', 'longstr', 'none'):
                return items  # (a Series of strings / None would create an object-dtype variable: outside the property's dtypes)
            return pd.Series(items)
        raise ValueError(c)
    if k == 'nested':
        rows, cols = max(0, ln(vs['rows'])), int(vs['cols'])
        return [[el(i * cols + j) for j in range(cols)] for i in range(rows)]
    if k == 'nd':
        shp = vs['shape']
        if shp == '()':
            return np.array(el(0))
        dims = {'(1,n)': (1, n), '(n,1)': (n, 1), '(n,2)': (n, 2), '(2,n)': (2, n), '(1,)': (1,), '(1,1)': (1, 1)}[shp]
        cnt = int(np.prod(dims))
        return np.array([el(i) for i in range(cnt)]).reshape(dims)
    raise ValueError(k)


def _truncates(arr_dtype, v):
    """Would storing v into a fixed-width string dtype cut it short?"""
    if arr_dtype.kind != 'U':
        return False
    width = arr_dtype.itemsize // 4
    try:
        flat = np.array(v, dtype=object).ravel().tolist()
    except Exception:
        return True
    return any(len(str(x)) > width for x in flat)


def _lossy(arr_dtype, v):
    """Operands NumPy accepts but mangles (None/NaN into int or bool, float into str, ...): outcome class MAY."""
    try:
        a = np.array(v, dtype=object).ravel().tolist()
    except Exception:
        return True
    for x in a:
        if x is None:
            return True
        if isinstance(x, float) and x != x and arr_dtype.kind in 'iub':
            return True
        if arr_dtype.kind == 'U' and not isinstance(x, str):
            return True
        if arr_dtype.kind in 'fiub' and isinstance(x, str):
            return True
    return False


def expect_whole(ref_arr, v, n):
    """Whole-series assignment (attribute or name key)."""
    if isinstance(v, Faulty):
        return 'may', None  # whatever happens, a failure must leave the object as it was (asserted by the caller)
    dt = ref_arr.dtype
    if isinstance(v, (list, tuple, range)):
        try:
            a = np.array(v)
        except Exception:
            return 'may', None
        if a.dtype == object:
            return 'may', None
        if a.size not in (1, n):
            return 'fail', None
        if a.ndim == 1 and a.size != n:
            return 'fail', None  # a one-element Python sequence is a sequence of the wrong length, not "a single value"
        if a.ndim != 1 or a.size != n:
            return 'may', None
        if _truncates(dt, v) or _lossy(dt, v):
            return 'may', None
        try:
            new = np.array(v, dtype=dt)
        except Exception:
            return 'may', None
        return 'ok', new
    tmp = ref_arr.copy()
    try:
        tmp[:] = v
    except Exception:
        return 'fail', None
    if not isinstance(v, np.ndarray) and hasattr(v, '__len__') and not isinstance(v, str):
        if len(v) not in (1, n):
            return 'fail', None
        if len(v) != n or _truncates(dt, list(v)) or _lossy(dt, list(v)):
            return 'may', None
        return 'ok', tmp
    if isinstance(v, np.ndarray):
        if v.size not in (1, n):
            return 'fail', None
        if v.ndim != 1 or v.size != n or _truncates(dt, v) or _lossy(dt, v):
            return 'may', None
        return 'ok', tmp
    if _truncates(dt, v) or _lossy(dt, v):
        return 'may', None
    return 'ok', tmp


def expect_positions(ref_arr, positions, v):
    """Assignment to the listed positions (label, label slice, in-place element)."""
    if isinstance(v, Faulty):
        return 'may', None  # whatever happens, a failure must leave the object as it was (asserted by the caller)
    dt = ref_arr.dtype
    tmp = ref_arr.copy()
    if isinstance(v, (list, tuple)) and any(isinstance(x, (list, tuple)) for x in v):
        return 'may', None
    try:
        if isinstance(positions, (int, slice)):
            tmp[positions] = v
        else:
            tmp[np.array(positions, dtype=int)] = v
    except Exception:
        return 'fail', None
    if _truncates(dt, v) or _lossy(dt, v):
        return 'may', None
    if isinstance(v, np.ndarray) and v.ndim > 1:
        return 'may', None
    return 'ok', tmp


def expect_add(v, dtype, n, default_dtype=None):
    """add_variable(name, v, dtype=dtype). Returns (class, array or None). dtype None -> inferred by NumPy (read back
    from the object afterwards), unless the family has a default dtype (models)."""
    use = dtype if dtype is not None else default_dtype
    if isinstance(v, Faulty):
        return 'may', None
    if isinstance(v, (list, tuple, range)):
        try:
            a = np.array(v)
        except Exception:
            return 'may', None
        if a.dtype == object:
            return 'may', None
        if a.size != n:
            return ('fail', None) if (a.size != 1 or a.ndim == 1) else ('may', None)
        if a.ndim != 1:
            return 'may', None
        flat = a
    elif isinstance(v, np.ndarray):
        if v.size not in (1, n):
            return 'fail', None
        if v.ndim > 1:
            return 'may', None
        try:
            flat = np.full(n, v)
        except Exception:
            return 'fail', None
    else:
        if v is None:
            return 'may', None
        if hasattr(v, '__len__') and not isinstance(v, str):
            # array-likes that are neither sequences nor ndarrays (e.g. a pandas Series): NumPy broadcasting decides
            try:
                if len(v) not in (1, n):
                    return 'fail', None
                flat = np.full(n, v)
            except Exception:
                return 'may', None
            if len(v) != n or flat.dtype == object:
                return 'may', None
        else:
            flat = np.full(n, v)
    if use is not None:
        dt = np.dtype(DTYPES.get(use, use))
        if _truncates(dt, flat.tolist()) or _lossy(dt, flat.tolist()):
            return 'may', None
        try:
            flat = flat.astype(dt)
        except Exception:
            return 'may', None
    return 'ok', flat


def resolve_slice(labels, a, b, step):
    """Positions addressed by the label slice a:b:step (a, b are positions into `labels` or None)."""
    n = len(labels)
    pa = 0 if a is None else a
    pb = n - 1 if b is None else b
    s = 1 if step is None else step
    return list(range(pa, pb + 1, s))


def positional_slice(labels, a, b, step):
    """The same addressed positions as a basic (positional) slice: pos(a) .. pos(b) inclusive in steps of `step`."""
    n = len(labels)
    pa = 0 if a is None else a
    pb = n - 1 if b is None else b
    return slice(pa, pb + 1, 1 if step is None else step)


def arrays_equal(a, b):
    if a.shape != b.shape or a.dtype != b.dtype:
        return False
    if a.dtype.kind == 'f':
        return bool(np.array_equal(a, b, equal_nan=True))
    if a.dtype.kind == 'O':
        return all((x is y) or _obj_eq(x, y) for x, y in zip(a.ravel().tolist(), b.ravel().tolist()))
    return bool(np.array_equal(a, b))


def _obj_eq(x, y):
    try:
        if isinstance(x, float) and isinstance(y, float) and x != x and y != y:
            return True
        return bool(x == y)
    except Exception:
        return False
