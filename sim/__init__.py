"""Deterministic operation-and-fault-sequence simulator for fsic (see /verif/DESIGN.md)."""
import os
import sys

REPO = os.environ.get('FSIC_REPO', '/repo')


def import_fsic():
    """Import fsic from the working tree under test (never from a cache or another copy)."""
    if sys.path[0] != REPO:
        sys.path.insert(0, REPO)
    import fsic  # noqa: F401

    here = os.path.realpath(os.path.dirname(fsic.__file__))
    want = os.path.realpath(os.path.join(REPO, 'fsic'))
    if here != want:
        raise RuntimeError(f'fsic imported from {here}, expected {want}')
    return fsic
