"""Simulation kernel: seeds, run context, batches, minimisation, replay files, evidence.

One run is a pure function of (workload, property, run seed, run index, tier):
    schedule = workload.generate(random.Random(seed), idx, tier)     # JSON-able
    workload.execute(schedule, ctx)                                   # real fsic + oracles
Nothing else is consulted: no clock, no os.urandom, no id(), no set iteration.
Replay executes a stored schedule through the same `execute` and never touches
the PRNG.
"""
import collections
import copy
import hashlib
import json
import math
import multiprocessing
import os
import random
import subprocess
import sys
import time
import traceback
import warnings
from concurrent.futures import ProcessPoolExecutor
from concurrent.futures import TimeoutError as FutTimeout

VERIF = os.path.dirname(os.path.dirname(os.path.abspath(__file__)))
MAX_VIOLATIONS_PER_RUN = 8


# ----------------------------------------------------------------------------
# seeds and canonical JSON


def derive_seed(base, prop, stratum, idx):
    h = hashlib.sha256(f'{base}:{prop}:{stratum}:{idx}'.encode()).digest()
    return int.from_bytes(h[:8], 'big')


def _default(o):
    # last-resort canonicalisation for the log: never id(), never repr of objects with addresses
    try:
        import numpy as np

        if isinstance(o, np.generic):
            return canon(o.item())
        if isinstance(o, np.ndarray):
            return [canon(x) for x in o.tolist()]
    except Exception:  # pragma: no cover
        pass
    if isinstance(o, (set, frozenset)):
        return sorted(map(str, o))
    if isinstance(o, tuple):
        return list(o)
    return f'<{type(o).__name__}>'


def canon(v):
    """Python/NumPy value -> JSON-able canonical form (NaN/inf spelled out, no addresses)."""
    if v is None or isinstance(v, (bool, str)):
        return v
    if isinstance(v, int):
        return v
    if isinstance(v, float):
        if math.isnan(v):
            return 'nan'
        if math.isinf(v):
            return 'inf' if v > 0 else '-inf'
        return v
    if isinstance(v, (list, tuple)):
        return [canon(x) for x in v]
    if isinstance(v, dict):
        return {str(k): canon(x) for k, x in v.items()}
    try:
        import numpy as np

        if isinstance(v, np.generic):
            return canon(v.item())
        if isinstance(v, np.ndarray):
            return canon(v.tolist())
    except Exception:  # pragma: no cover
        pass
    return f'<{type(v).__name__}:{v}>' if isinstance(v, (complex, bytes)) else f'<{type(v).__name__}>'


def dumps(o):
    return json.dumps(o, sort_keys=True, default=_default, allow_nan=True, separators=(',', ':'))


def h64(o):
    return hashlib.sha256(dumps(o).encode()).hexdigest()[:16]


# ----------------------------------------------------------------------------
# run context


class Ctx:
    """Per-run recorder: event log, violations, counters. No PRNG, no clock."""

    def __init__(self, armed):
        self.armed = set(armed)
        self.events = []
        self.violations = []
        self._seen_sigs = set()
        self.faults = collections.Counter()
        self.probes = collections.Counter()
        self.counters = collections.Counter()
        self.states = set()
        self.bigrams = set()
        self.step = -1
        self.armed_asserts = 0
        self.discrepancies = 0
        self.np_err = 'default'
        self._last_kind = '^'

    # -- log
    def log(self, *ev):
        self.events.append(canon(list(ev)))

    def fault(self, kind, n=1):
        self.faults[kind] += n

    def probe(self, name, n=1):
        self.probes[name] += n

    def count(self, name, n=1):
        self.counters[name] += n

    def state(self, o):
        self.states.add(h64(o))

    def outcome(self, kind, cls):
        """Record (operation kind, outcome class) and its bigram with the previous one."""
        cur = f'{kind}/{cls}'
        self.bigrams.add(self._last_kind + '>' + cur)
        self._last_kind = cur
        self.counters['op:' + kind] += 1
        self.counters['steps'] += 1

    # -- assertions
    def check(self, prop, sig, cond, detail=None):
        """Assertion tagged with the property it serves. Only armed properties report."""
        if prop in self.armed:
            self.armed_asserts += 1
        if cond:
            return True
        self.discrepancies += 1
        if prop in self.armed:
            full = f'{prop}/{sig}'
            if full not in self._seen_sigs and len(self.violations) < MAX_VIOLATIONS_PER_RUN:
                self._seen_sigs.add(full)
                self.violations.append(
                    {'property': prop, 'signature': full, 'step': self.step, 'detail': canon(detail)}
                )
            self.log('VIOLATION', full, self.step)
        else:
            self.log('other-property-discrepancy', f'{prop}/{sig}', self.step)
        return False

    def digest(self):
        return hashlib.sha256(dumps(self.events).encode()).hexdigest()[:16]


# ----------------------------------------------------------------------------
# process-global state pinned per run


NP_ERR_STATES = {
    'default': dict(divide='warn', over='warn', under='ignore', invalid='warn'),  # NumPy's own defaults
    'ignore': dict(divide='ignore', over='ignore', under='ignore', invalid='ignore'),
    'warn': dict(divide='warn', over='warn', under='warn', invalid='warn'),
    'raise': dict(divide='raise', over='raise', under='raise', invalid='raise'),
}


_PRISTINE = None


def _library_globals():
    """Mutable class-level defaults of the library's own base classes: shared by every run in a worker process."""
    from . import import_fsic

    fsic = import_fsic()
    from fsic.extensions import AliasMixin, TracerMixin

    out = []
    for cls, attrs in (
        (AliasMixin, ('ALIASES', 'PREFERRED_NAMES')),
        (TracerMixin, ('TRACE_VARIABLES',)),
        (fsic.BaseModel, ('ENDOGENOUS', 'EXOGENOUS', 'PARAMETERS', 'ERRORS', 'NAMES', 'CHECK')),
        (fsic.BaseLinker, ('ENDOGENOUS', 'EXOGENOUS', 'PARAMETERS', 'ERRORS', 'NAMES', 'CHECK')),
        (fsic.core.interfaces.ModelInterface, ('NAMES',)),
    ):
        for a in attrs:
            v = cls.__dict__.get(a)
            if isinstance(v, (list, dict)):
                out.append((cls, a, v))
    out.append((fsic.functions, 'builtins', fsic.functions.builtins))
    # ... and, generically, every module-level or class-level list / dict / set of the library's own modules (a changed
    # tree may keep state there that the pinned tree does not have: a run must not inherit it from the run before)
    import sys as _sys
    import types as _types

    seen = {id(v) for _c, _a, v in out}
    for mname, mod in sorted(_sys.modules.items()):
        if not (mname == 'fsic' or mname.startswith('fsic.')) or not isinstance(mod, _types.ModuleType):
            continue
        for a, v in sorted(vars(mod).items()):
            if a.startswith('__'):
                continue
            if isinstance(v, (list, dict, set)) and id(v) not in seen:
                seen.add(id(v))
                out.append((mod, a, v))
            elif isinstance(v, type) and getattr(v, '__module__', '') == mname:
                for ca, cv in sorted(vars(v).items()):
                    if not ca.startswith('__') and isinstance(cv, (list, dict, set)) and id(cv) not in seen:
                        seen.add(id(cv))
                        out.append((v, ca, cv))
    return out


def restore_library_globals():
    """A broken tree may let one run mutate the library's class-level defaults; the next run must not inherit that."""
    global _PRISTINE
    import copy as _copy

    if _PRISTINE is None:
        _PRISTINE = [(c, a, v, _copy.copy(v)) for c, a, v in _library_globals()]
        return 0
    n = 0
    for c, a, v, pristine in _PRISTINE:
        try:
            changed = bool(v != pristine)
        except Exception:
            changed = True  # (e.g. arrays inside: no single truth value)
        if changed:
            n += 1
            if isinstance(v, list):
                v[:] = pristine
            else:
                v.clear()
                v.update(pristine)
    return n


def pin_globals(np_err='default'):
    import numpy as np

    restore_library_globals()

    np.seterr(**NP_ERR_STATES[np_err])  # the caller's ambient floating-point error state is part of the configuration
    warnings.resetwarnings()
    warnings.simplefilter('ignore')
    return list(warnings.filters), dict(np.geterr())


def run_schedule(workload, schedule, armed):
    """Execute one schedule against the real code. Returns the Ctx."""
    ctx = Ctx(armed)
    pin_globals(schedule.get('np_err', 'default'))
    try:
        workload.execute(schedule, ctx)
    except Exception as e:
        # An object that has already been shown to violate a property can break the simulator's own assumptions
        # (e.g. a name list shared between instances). That is a derailed run, not a harness error - but only if a
        # discrepancy was recorded first; an exception on a clean run is a bug in the simulator and is re-raised.
        if not ctx.discrepancies:
            raise
        ctx.log('derailed-after-discrepancy', type(e).__name__)
        ctx.count('derailed-runs')
    return ctx


def run_one(workload, prop, seed, idx, tier):
    rng = random.Random(seed)
    schedule = workload.generate(rng, idx, tier)
    schedule['seed'] = seed
    schedule['run_index'] = idx
    ctx = run_schedule(workload, schedule, [prop])
    return schedule, ctx


# ----------------------------------------------------------------------------
# batches


def in_child(fn):
    """Run fn() in a forked child of this process and return its (pickled) result. The child starts from this process's
    state and takes whatever the library remembers at module or class level with it when it exits: executions judged this
    way cannot influence one another through state kept outside the objects of one run."""
    import pickle

    r, w = os.pipe()
    pid = os.fork()
    if pid == 0:
        code = 0
        try:
            os.close(r)
            try:
                data = pickle.dumps(('ok', fn()))
            except BaseException as e:  # noqa: BLE001
                data = pickle.dumps(('exc', f'{type(e).__name__}: {e}', traceback.format_exc()))
            with os.fdopen(w, 'wb') as f:
                f.write(data)
        except BaseException:  # noqa: BLE001
            code = 3
        finally:
            os._exit(code)
    os.close(w)
    with os.fdopen(r, 'rb') as f:
        data = f.read()
    os.waitpid(pid, 0)
    if not data:
        raise HarnessError('a forked child of the simulator died without an answer')
    res = pickle.loads(data)
    if res[0] == 'exc':
        raise HarnessError(f'exception in a forked child of the simulator: {res[1]}\n{res[2]}')
    return res[1]


def _chunk_worker(args):
    """One chunk of consecutive run indexes = one forked child: the runs of a chunk execute in index order in a process of
    their own, so whatever the library remembers between runs (module- or class-level state) is confined to the chunk and
    the same for every execution of the batch, whichever pool process picked the chunk up."""
    return in_child(lambda: _chunk_worker_inner(args))


def _chunk_worker_inner(args):
    wl_name, prop, stratum, base_seed, tier, idxs, want_samples = args
    import faulthandler

    faulthandler.enable()
    from . import workloads

    workload = workloads.get(wl_name)
    out = {
        'digests': [],
        'violations': [],
        'faults': collections.Counter(),
        'probes': collections.Counter(),
        'counters': collections.Counter(),
        'states': set(),
        'bigrams': set(),
        'sched': set(),
        'nontrivial_sched': set(),
        'samples': [],
        'error': None,
    }
    seen_sigs = set()
    for idx in idxs:
        seed = derive_seed(base_seed, prop, stratum, idx)
        try:
            schedule, ctx = run_one(workload, prop, seed, idx, tier)
        except BaseException as e:  # harness error: a bug in the simulator, never a verdict
            out['error'] = {
                'idx': idx,
                'seed': seed,
                'stratum': stratum,
                'exc': f'{type(e).__name__}: {e}',
                'tb': traceback.format_exc(),
            }
            return out
        out['digests'].append((idx, ctx.digest()))
        sh = h64({k: v for k, v in schedule.items() if k not in ('seed', 'run_index')})
        out['sched'].add(sh)
        if ctx.armed_asserts > 0:
            out['nontrivial_sched'].add(sh)
        out['faults'].update(ctx.faults)
        out['probes'].update(ctx.probes)
        out['counters'].update(ctx.counters)
        out['counters']['armed_asserts'] += ctx.armed_asserts
        out['states'].update(ctx.states)
        out['bigrams'].update(ctx.bigrams)
        if want_samples and len(out['samples']) < want_samples:
            out['samples'].append(schedule)
        for v in ctx.violations:
            if v['signature'] not in seen_sigs:  # first (lowest idx) per signature per chunk
                seen_sigs.add(v['signature'])
                out['violations'].append(dict(v, schedule=schedule, seed=seed, idx=idx, stratum=stratum, workload=wl_name, chunk_lo=idxs[0]))
    return out


class HarnessError(Exception):
    pass


def run_batch(prop, strata, base_seed, tier, workers, ceiling_s):
    """strata: list of (stratum name, workload name, n_runs). Returns aggregate dict."""
    t0 = time.time()
    tasks = []
    for sname, wl_name, n in strata:
        chunk = max(10, min(400, n // (workers * 6) or 1))
        first = True
        for lo in range(0, n, chunk):
            idxs = list(range(lo, min(n, lo + chunk)))
            tasks.append((wl_name, prop, sname, base_seed, tier, idxs, 2 if first else 0))
            first = False
    agg = {
        'runs': 0,
        'violations': [],
        'faults': collections.Counter(),
        'probes': collections.Counter(),
        'counters': collections.Counter(),
        'states': set(),
        'bigrams': set(),
        'sched': set(),
        'nontrivial_sched': set(),
        'samples': [],
        'digest': hashlib.sha256(),
        'per_stratum': collections.Counter(),
    }
    ctxmp = multiprocessing.get_context('fork')
    with ProcessPoolExecutor(max_workers=workers, mp_context=ctxmp) as ex:
        futs = [ex.submit(_chunk_worker, t) for t in tasks]
        try:
            for t, f in zip(tasks, futs):
                left = ceiling_s - (time.time() - t0)
                if left <= 0:
                    raise FutTimeout()
                out = f.result(timeout=left)
                if out['error']:
                    e = out['error']
                    raise HarnessError(
                        f"exception in simulator code (stratum={e['stratum']} idx={e['idx']} seed={e['seed']}): "
                        f"{e['exc']}\n{e['tb']}"
                    )
                agg['runs'] += len(out['digests'])
                agg['per_stratum'][t[2]] += len(out['digests'])
                for idx, d in out['digests']:
                    agg['digest'].update(f'{t[2]}:{idx}:{d};'.encode())
                for k in ('faults', 'probes', 'counters'):
                    agg[k].update(out[k])
                for k in ('states', 'bigrams', 'sched', 'nontrivial_sched'):
                    agg[k] |= out[k]
                agg['samples'].extend(out['samples'])
                agg['violations'].extend(out['violations'])
        except FutTimeout:
            for f in futs:
                f.cancel()
            for p in list(getattr(ex, '_processes', {}).values()):
                try:
                    p.kill()
                except Exception:
                    pass
            raise HarnessError(f'batch ceiling of {ceiling_s}s reached: no verdict')
    agg['wall_s'] = time.time() - t0
    agg['digest'] = agg['digest'].hexdigest()[:16]
    return agg


# ----------------------------------------------------------------------------
# minimisation (delta debugging on the operation list, then workload-specific simplification)


def fails_with(workload, schedule, prop, signature):
    try:
        ctx = run_schedule(workload, schedule, [prop])
    except Exception:
        return None
    for v in ctx.violations:
        if v['signature'] == signature:
            return v
    return None


def fails_after(workload, history, schedule, prop, signature):
    """fails_with() for `schedule` executed, in one fresh child process, after the schedules of `history` (earlier runs
    whose only role is what the library may have remembered of them)."""

    def go():
        for h in history:
            try:
                run_schedule(workload, h, [prop])
            except Exception:  # noqa: BLE001
                pass
        return fails_with(workload, schedule, prop, signature)

    return in_child(go)


def shrink_history(workload, history, schedule, prop, signature, budget=120):
    """Drop as many earlier runs from `history` as can be dropped while `schedule` still fails after them."""
    hist = list(history)
    used = 0
    n = 2
    while hist and used < budget:
        size = max(1, len(hist) // n)
        removed = False
        for lo in range(0, len(hist), size):
            cand = hist[:lo] + hist[lo + size :]
            used += 1
            if fails_after(workload, cand, schedule, prop, signature) is not None:
                hist = cand
                n = max(n - 1, 2)
                removed = True
                break
            if used >= budget:
                break
        if not removed:
            if size == 1:
                break
            n = min(len(hist), n * 2)
    return hist


def shrink(workload, schedule, prop, signature, budget=600, history=()):
    """Return a smaller schedule that still fails with the same signature. `budget` bounds executions."""
    best = copy.deepcopy(schedule)
    used = [0]

    def test(cand):
        if used[0] >= budget:
            return False
        used[0] += 1
        return fails_after(workload, list(history), cand, prop, signature) is not None

    keys = [k for k in getattr(workload, 'shrink_lists', ['ops']) if isinstance(best.get(k), list)]
    for key in keys:
        ops = best[key]
        n = 2
        while len(ops) >= 1 and used[0] < budget:
            size = max(1, len(ops) // n)
            removed = False
            for lo in range(0, len(ops), size):
                cand_ops = ops[:lo] + ops[lo + size :]
                protect = getattr(workload, 'shrink_protect', 0)
                if lo < protect:
                    continue
                cand = dict(best)
                cand[key] = cand_ops
                if test(cand):
                    ops = cand_ops
                    best = cand
                    n = max(n - 1, 2)
                    removed = True
                    break
            if not removed:
                if size == 1:
                    break
                n = min(len(ops), n * 2)
    # workload-specific operand simplification
    simplify = getattr(workload, 'simplify', None)
    if simplify is not None:
        progress = True
        while progress and used[0] < budget:
            progress = False
            for cand in simplify(best):
                if used[0] >= budget:
                    break
                if test(cand):
                    best = cand
                    progress = True
                    break
    best['shrink_executions'] = used[0]
    return best


# ----------------------------------------------------------------------------
# known findings, replay files


def load_known():
    p = os.path.join(VERIF, 'known_findings.json')
    if not os.path.exists(p):
        return []
    with open(p) as f:
        return json.load(f).get('findings', [])


def write_replay(prop, v, schedule, base_seed, tier, history=()):
    d = os.path.join(VERIF, 'replays')
    os.makedirs(d, exist_ok=True)
    sigh = hashlib.sha256(v['signature'].encode()).hexdigest()[:8]
    path = os.path.join(d, f"{prop}-{v['seed']}-{sigh}.json")
    with open(path, 'w') as f:
        json.dump(
            {
                'property': prop,
                'signature': v['signature'],
                'workload': v['workload'],
                'stratum': v['stratum'],
                'base_seed': base_seed,
                'tier': tier,
                'run_seed': v['seed'],
                'run_index': v['idx'],
                'failed_at_step': v['step'],
                'detail': v['detail'],
                'schedule': schedule,
                # earlier runs of the same process, executed first on replay: present only where the violation does not
                # show on a fresh process (the library remembered something of them outside their own objects)
                'history': list(history),
            },
            f,
            indent=1,
            default=_default,
        )
    return path


def replay_file(path, quiet=False):
    """Re-execute a replay file in this interpreter. Returns (failed, message)."""
    from . import workloads

    with open(path) as f:
        r = json.load(f)
    workload = workloads.get(r['workload'])
    for h in r.get('history') or []:
        try:
            run_schedule(workload, h, [r['property']])
        except Exception:  # noqa: BLE001
            pass
    v = fails_with(workload, r['schedule'], r['property'], r['signature'])
    if v is None:
        return False, f"replay of {path}: signature {r['signature']} did NOT reproduce"
    return True, f"replay of {path}: reproduced {r['signature']} at step {v['step']}: {dumps(v['detail'])[:600]}"


def replay_in_fresh_process(path):
    env = dict(os.environ)
    env['PYTHONHASHSEED'] = '0'
    p = subprocess.run(
        [sys.executable, os.path.join(VERIF, 'check'), '--replay', path],
        capture_output=True,
        text=True,
        env=env,
        timeout=600,
    )
    return p.returncode == 1 and 'reproduced' in p.stdout, p.stdout + p.stderr
