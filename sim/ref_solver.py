"""R-solver: the per-period state machine of C02/C06 as a judge over the recorded history of one
single-period solve call. Shares no code with fsic. See DESIGN.md section 2.4.

Input is what the seams recorded (one record per hook / evaluation pass, with the check values
after the pass and the exception the pass raised), the options of the call, and snapshots of all
series before and after the call. Output: a list of (signature, ok, detail) judgements.
"""
import math

import numpy as np

ALPHABET = {'-', '.', 'F', 'E', 'S'}


def nonfinite(vals):
    return any((not math.isfinite(v)) for v in vals)


def snapshot(obj):
    d = obj.__dict__
    return {nm: d['_' + nm].copy() for nm in d['index']}


def same(a, b):
    if a.dtype.kind == 'f' and b.dtype.kind == 'f':
        return a.shape == b.shape and bool(np.array_equal(a, b, equal_nan=True))
    if a.dtype.kind == 'O' or b.dtype.kind == 'O':
        return a.shape == b.shape and all(x is y for x, y in zip(a.tolist(), b.tolist()))
    return a.shape == b.shape and a.dtype == b.dtype and bool(np.array_equal(a, b))


def diff_cells(before, after, skip=()):
    """Set of (name, position) cells that differ between two snapshots (names missing on one side count whole)."""
    out = []
    for nm in before:
        if nm in skip:
            continue
        a, b = before[nm], after.get(nm)
        if b is None or a.shape != b.shape:
            out.append((nm, -1))
            continue
        if a.dtype.kind == 'O':
            for i, (x, y) in enumerate(zip(a.tolist(), b.tolist())):
                if x is not y:
                    out.append((nm, i))
            continue
        if a.dtype.kind == 'f':
            neq = ~((a == b) | (np.isnan(a) & np.isnan(b)))
        else:
            neq = a != b
        for i in np.nonzero(neq)[0].tolist():
            out.append((nm, i))
    for nm in after:
        if nm not in before:
            out.append((nm, -1))
    return out


def expected_outcome(opts, init_check, evals, dtype=None):
    """Walk the state machine over the recorded evaluation passes.

    evals: list of records (with 'post' = check values after the pass, 'exc' = exception class name or None).
    Returns dict: end ('.', 'F', 'E', 'S', 'pass-exc', 'unspecified'), k (pass number at exit), npass (passes consumed),
    short (True if the log ran out before the machine finished), judged (list of pass numbers judged for convergence).
    """
    min_iter, max_iter, tol = opts['min_iter'], opts['max_iter'], opts['tol']
    errors = opts['errors']
    prev = list(init_check)
    judged = []
    tags = set()
    k = 0
    for k in range(1, max_iter + 1):
        if k - 1 >= len(evals):
            return {'end': 'short', 'k': k, 'npass': len(evals), 'judged': judged, 'tags': tags}
        rec = evals[k - 1]
        if rec['exc'] is not None:
            return {'end': 'pass-exc', 'k': k, 'npass': k, 'judged': judged, 'tags': tags, 'rec': rec}
        cur = list(rec['post'])
        if nonfinite(prev):
            tags.add('pass-starting-from-nonfinite-not-judged')
            if not nonfinite(cur):
                tags.add('healed')
            prev = cur
            continue
        if nonfinite(cur):
            if errors == 'raise':
                return {'end': 'E', 'k': k, 'npass': k, 'judged': judged, 'tags': tags}
            if errors == 'skip':
                return {'end': 'S', 'k': k, 'npass': k, 'judged': judged, 'tags': tags}
            if errors == 'ignore':
                if k == max_iter:
                    tags.add('nonfinite-on-last-pass')
                    return {'end': 'F', 'k': k, 'npass': k, 'judged': judged, 'tags': tags}
                prev = cur
                continue
            if errors == 'replace':
                if k == max_iter:
                    tags.add('nonfinite-on-last-pass')
                    return {'end': 'F', 'k': k, 'npass': k, 'judged': judged, 'tags': tags}
                prev = [v if math.isfinite(v) else 0.0 for v in cur]
                tags.add('replaced')
                continue
            return {'end': 'unspecified', 'k': k, 'npass': k, 'judged': judged, 'tags': tags}
        if k < min_iter:
            tags.add('below-min_iter')
            prev = cur
            continue
        judged.append(k)
        moved = [abs(c - p) for c, p in zip(cur, prev)]
        within = [m < tol for m in moved]
        if dtype is not None:
            # a model in a narrower dtype does its step arithmetic in that dtype; where rounding there and the exact
            # difference disagree about 'less than tol', nothing is prescribed
            with np.errstate(all='ignore'):
                narrow = (np.abs(np.array(cur, dtype=dtype) - np.array(prev, dtype=dtype)) < tol).tolist()
            if narrow != within:
                tags.add('narrow-dtype-rounding-at-tol')
                return {'end': 'rounding', 'k': k, 'npass': k, 'judged': judged, 'tags': tags}
        if any(m == tol for m in moved):
            tags.add('moved-exactly-tol')
        if any(within) and not all(within):
            tags.add('some-but-not-all-within-tol')
        if all(within):
            if k == max(1, min_iter):
                tags.add('converged-at-first-permitted-pass')
            if k == max_iter:
                tags.add('converged-at-max_iter')
            return {'end': '.', 'k': k, 'npass': k, 'judged': judged, 'tags': tags}
        prev = cur
    return {'end': 'F', 'k': max_iter, 'npass': max_iter, 'judged': judged, 'tags': tags}


def judge_single(call, chk, probe=None):
    """Judge one solve_t / solve_period call.

    call: dict with opts, n, t (raw), endo, check, snap, post, log, raised, outcome, feasible (bool),
          scripted (bool: whether post-pass values are attributable to the recorded passes).
    chk(sig, ok, detail) records a judgement.
    """
    opts = call['opts']
    n = call['n']
    t = call['t']
    tn = t + n if t < 0 else t
    endo, check = call['endo'], call['check']
    snap, post = call['snap'], call['post']
    log = call['log']
    out = call['outcome']
    exc = out.get('exc')
    exc_name = type(exc).__name__ if exc is not None else None
    P = probe or (lambda name: None)

    def unchanged(sig, allowed=()):
        cells = [c for c in diff_cells(snap, post) if c not in allowed]
        chk(sig, not cells, {'changed': cells[:8]})
        return not cells

    if call.get('np_err') == 'raise' and exc_name == 'FloatingPointError':
        # The caller asked NumPy to raise on floating-point errors, and the solver's own step arithmetic (current minus
        # previous check values) overflowed or met inf - inf: that exception is the caller's configuration at work, the
        # property prescribes nothing for it.
        P('caller-error-state-raise-hit-solver-arithmetic')
        return {'end': 'caller-error-state'}

    # status alphabet everywhere, always
    st = post['status']
    chk('status-alphabet', all(s in ALPHABET for s in st.tolist()), {'status': st.tolist()})

    # ---- up-front rejections
    rej = set()
    if opts['min_iter'] > opts['max_iter']:
        rej.add('ValueError')
    if opts['offset'] and not (0 <= tn + opts['offset'] < n):
        rej.add('IndexError')
    if rej:
        P('rejected:' + '+'.join(sorted(rej)))
        chk('reject/raises', exc_name in rej, {'expected': sorted(rej), 'got': exc_name, 'opts': opts})
        chk('reject/no-seam-call', len(log) == 0, {'log': [r['hook'] for r in log]})
        unchanged('reject/nothing-changes')
        return {'end': 'rejected'}

    if not call.get('feasible', True):
        # C04 clause: must be rejected (any exception); nothing else is prescribed
        P('infeasible-period')
        chk('infeasible-period-served', exc is not None, {'t': t, 'n': n, 'lags': call.get('lags'), 'leads': call.get('leads')})
        return {'end': 'infeasible'}

    # ---- offset copy
    start = {nm: a.copy() for nm, a in snap.items()}
    off = opts['offset']
    if off:
        P('offset-used')
        for nm in call.get('endo_offset', endo):  # (the instance's own list, where the caller has edited it)
            start[nm][tn] = snap[nm][tn + off]
    init_check = [_num(start[nm][tn]) for nm in check]

    # ---- pre-existing non-finite under 'raise'
    if opts['errors'] == 'raise' and nonfinite(init_check):
        P('preexisting-nonfinite-rejected')
        chk('preexisting/raises-SolutionError', exc_name == 'SolutionError', {'got': exc_name})
        chk('preexisting/no-seam-call', len(log) == 0, {'log': [r['hook'] for r in log]})
        # nothing changes, except (at most) the documented offset copy that precedes the test
        cells = diff_cells(snap, post)
        allowed = {(nm, tn) for nm in call.get('endo_offset', endo)} if off else set()
        bad = [c for c in cells if c not in allowed]
        chk('preexisting/nothing-changes', not bad, {'changed': bad[:8]})
        if off and cells:
            cells2 = diff_cells(start, post)
            chk('preexisting/only-the-offset-copy', not cells2, {'changed': cells2[:8]})
        return {'end': 'rejected-preexisting'}

    # ---- hooks and passes, in order
    befores = [r for r in log if r['hook'] == 'before']
    evals = [r for r in log if r['hook'] == 'eval']
    afters = [r for r in log if r['hook'] == 'after']
    chk('pre-hook/exactly-once', len(befores) == 1, {'calls': len(befores)})
    chk('pre-hook/first', bool(log) and log[0]['hook'] == 'before', {'order': [r['hook'] for r in log[:4]]})
    for r in log:
        # the hooks must be told which period is being solved; either spelling of the position says so
        chk('seam/receives-t', r['t'] in (t, tn), {'hook': r['hook'], 'got': r['t'], 'want': t})
    if befores and off and call.get('scripted'):
        # the copy must be in place before the first user code runs
        chk(
            'offset/copy-visible-to-pre-hook',
            all(_eq(a, _num(start[nm][tn])) for a, nm in zip(befores[0]['pre'], endo)),
            {'seen': befores[0]['pre'], 'want': [_num(start[nm][tn]) for nm in endo]},
        )

    def status_unchanged(sig):
        ok = post['status'][tn] == snap['status'][tn] and post['iterations'][tn] == snap['iterations'][tn]
        chk(sig, ok, {'status': str(post['status'][tn]), 'iterations': int(post['iterations'][tn])})

    def others_untouched():
        allowed = {(nm, tn) for nm in endo} | {('status', tn), ('iterations', tn)}
        if off:
            allowed |= {(nm, tn) for nm in call.get('endo_offset', [])}
        for r in log:
            if r.get('act') == 'setx':
                allowed |= {(nm, tn) for nm in call.get('exo', [])}
        if call.get('drift_name'):
            allowed.add((call['drift_name'], tn))  # (the user's own pass code moves it)
        bad = [c for c in diff_cells(snap, post) if c not in allowed]
        chk('frame/other-cells-untouched', not bad, {'changed': bad[:8]})

    others_untouched()

    if befores and befores[0]['exc'] is not None and befores[0]['exc'] != 'SimInterrupt':
        P('pre-hook-raised')
        chk('pre-hook-exc/SolutionError', exc_name == 'SolutionError', {'got': exc_name})
        chk('pre-hook-exc/chained', exc is not None and exc.__cause__ is call['raised'][0], {'cause': type(getattr(exc, '__cause__', None)).__name__})
        chk('pre-hook-exc/no-pass', len(evals) == 0 and len(afters) == 0, {'evals': len(evals)})
        return {'end': 'pre-hook-exc'}

    E = expected_outcome(opts, init_check, evals, dtype={'float32': np.float32}.get(call.get('dtype')))
    for tg in E['tags']:
        P(tg)
    end = E['end']
    P('end:' + end)
    if end == 'rounding':
        return E

    if end == 'short':
        chk('passes/too-few', False, {'performed': len(evals), 'machine-still-running-at': E['k'], 'opts': opts})
        return E
    chk('passes/count', len(evals) == E['npass'], {'performed': len(evals), 'expected': E['npass'], 'end': end, 'opts': opts})
    for i, r in enumerate(evals[: E['npass']]):
        chk('passes/iteration-keyword', r['iteration'] == i + 1, {'pass': i + 1, 'got': r['iteration']})

    if not call.get('scripted'):
        # equations built by the parser from a script within the documented syntax fault arithmetically (a warning turned
        # into an error, a division by zero, an overflow) - a TypeError, NameError or the like out of the generated code
        # is not a numerical fault of the model
        arithmetic = {None, 'RuntimeWarning', 'FloatingPointError', 'ZeroDivisionError', 'OverflowError', 'SimInterrupt'}
        if call.get('shorter_than_script'):
            arithmetic.add('IndexError')  # (lag / lead lengths imposed below what the script reads: running off the span is the caller's doing)
        for r in evals:
            chk('pass/generated-code-raised-a-non-arithmetic-exception', r['exc'] in arithmetic, {'exc': r['exc'], 'iteration': r['iteration']})
    if call.get('scripted'):
        # actions that only write finite numbers can never be the source of an exception
        ambient = call.get('np_err', 'default')
        for r in evals[: E['npass']]:
            if r.get('act') in ('delta', 'set', 'half', 'noop') or (r.get('act') == 'npunder' and ambient in ('default', 'ignore')):
                chk('pass/finite-arithmetic-raised', r['exc'] is None, {'act': r.get('act'), 'exc': r['exc'], 'errors': opts['errors'], 'catch_first_error': opts['catch_first_error']})
        # warning-raising statements: turned into errors exactly under errors='raise' with catch_first_error
        strict = opts['errors'] == 'raise' and bool(opts['catch_first_error'])
        for r in evals[: E['npass']]:
            if r.get('act') == 'npwarn' and ambient != 'default' and ambient != 'warn':
                # the caller's floating-point error state decides: 'ignore' never warns, 'raise' always raises
                if ambient == 'ignore':
                    chk('warning-statement/ambient-ignore-respected', r['exc'] is None, {'raised': r['exc']})
                else:
                    chk('warning-statement/ambient-raise-respected', r['exc'] == 'FloatingPointError', {'raised': r['exc']})
                continue
            if r.get('act') in ('npwarn', 'pywarn'):
                raised_warning = r['exc'] in ('RuntimeWarning', 'UserWarning', 'FutureWarning', 'DeprecationWarning')
                P('warning-statement:' + ('strict' if strict else 'lenient'))
                chk('warning-statement/error-iff-raise-and-catch_first_error', raised_warning == strict, {'errors': opts['errors'], 'catch_first_error': opts['catch_first_error'], 'raised': r['exc'], 'act': r.get('act')})
                if strict and r.get('act') == 'npwarn' and r.get('npwarn_j') is not None:
                    j = r['npwarn_j']
                    chk('warning-statement/does-not-store', _eq(r['post_endo'][j], r['pre'][j]), {'before': r['pre'][j], 'after': r['post_endo'][j]})
                if not strict and r.get('act') == 'npwarn' and r.get('npwarn_j') is not None:
                    j = r['npwarn_j']
                    chk('warning-statement/stores-without-catch_first_error', not math.isfinite(r['post_endo'][j]), {'after': r['post_endo'][j]})
    if call.get('scripted') and evals and opts['errors'] != 'replace':
        last = evals[-1]
        ok = all(_eq(_num(post[nm][tn]), v) for nm, v in zip(endo, last['post_endo']))
        chk('values/period-holds-last-pass', ok, {'stored': [_num(post[nm][tn]) for nm in endo], 'last-pass': last['post_endo']})
    if call.get('scripted') and not evals:
        ok = all(_eq(_num(post[nm][tn]), _num(start[nm][tn])) for nm in endo)
        chk('values/no-pass-only-offset-copy', ok, None)
    if call.get('scripted') and evals:
        chk(
            'offset/first-pass-sees-copy',
            all(_eq(a, _num(start[nm][tn])) for a, nm in zip(evals[0]['pre'], endo)),
            {'seen': evals[0]['pre'], 'want': [_num(start[nm][tn]) for nm in endo]},
        )

    def bookkeeping(status, iters):
        chk(f'status/{end}', post['status'][tn] == status, {'got': str(post['status'][tn]), 'want': status, 'opts': opts})
        chk(
            f'iterations/{end}' + ('/max_iter=0' if opts['max_iter'] == 0 else ''),
            int(post['iterations'][tn]) == iters,
            {'got': int(post['iterations'][tn]), 'want': iters, 'opts': opts, 'exc': exc_name},
        )

    if end == 'pass-exc':
        if E['rec']['exc'] == 'SimInterrupt':
            return E
        P('pass-raised')
        chk('pass-exc/SolutionError', exc_name == 'SolutionError', {'got': exc_name})
        chk('pass-exc/chained', exc is not None and exc.__cause__ is call['raised'][-1], {'cause': type(getattr(exc, '__cause__', None)).__name__})
        chk('pass-exc/no-post-hook', len(afters) == 0, None)
        if opts['errors'] == 'raise':
            bookkeeping('E', E['k'])
        else:
            P('pass-raised-under-non-raise-policy')
        return E

    if end == 'unspecified':
        # invalid `errors=`: nothing prescribed beyond the alphabet and the frame (asserted above)
        P('invalid-errors-policy-met-nonfinite')
        return E

    if end == 'E':
        chk('nonfinite-raise/SolutionError', exc_name == 'SolutionError', {'got': exc_name})
        chk('nonfinite-raise/no-post-hook', len(afters) == 0, None)
        bookkeeping('E', E['k'])
        return E

    if end == 'S':
        chk('skip/returns-False', out.get('kind') == 'return' and _is_bool(out.get('value'), False), {'got': exc_name or out.get('value')})
        chk('skip/no-post-hook', len(afters) == 0, None)
        bookkeeping('S', E['k'])
        return E

    if end == '.':
        chk('post-hook/exactly-once', len(afters) == 1, {'calls': len(afters)})
        chk('post-hook/after-converging-pass', bool(log) and log[-1]['hook'] == 'after', {'order': [r['hook'] for r in log[-3:]]})
        if afters and afters[0]['exc'] is not None and afters[0]['exc'] != 'SimInterrupt':
            P('post-hook-raised')
            chk('post-hook-exc/SolutionError', exc_name == 'SolutionError', {'got': exc_name})
            chk('post-hook-exc/chained', exc is not None and exc.__cause__ is call['raised'][-1], {'cause': type(getattr(exc, '__cause__', None)).__name__})
            return E
        if afters and afters[0]['exc'] == 'SimInterrupt':
            return E
        chk('solved/returns-True', out.get('kind') == 'return' and _is_bool(out.get('value'), True), {'got': exc_name or out.get('value'), 'opts': opts})
        bookkeeping('.', E['k'])
        return E

    if end == 'F':
        chk('post-hook/never-unless-converged', len(afters) == 0, {'calls': len(afters)})
        bookkeeping('F', E['k'])
        if opts['failures'] == 'raise':
            chk('failed/NonConvergenceError', exc_name == 'NonConvergenceError', {'got': exc_name or out.get('value'), 'opts': opts})
        else:
            chk('failed/returns-False', out.get('kind') == 'return' and _is_bool(out.get('value'), False), {'got': exc_name or out.get('value'), 'opts': opts})
        return E
    raise AssertionError(end)


def _num(x):
    if isinstance(x, (np.integer, np.bool_)):
        return int(x)
    return x.item() if isinstance(x, np.generic) else x


def _eq(a, b):
    return a == b or (isinstance(a, float) and isinstance(b, float) and math.isnan(a) and math.isnan(b))


def _is_bool(v, want):
    return isinstance(v, (bool, np.bool_)) and bool(v) is want
