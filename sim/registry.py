"""Per-property check configuration and the check driver (verdict, known findings, replay files, evidence)."""
import json
import os
import sys
import time

from . import kernel

VERIF = kernel.VERIF

# strata: (stratum name, workload variant, share of the run budget)
PROPS = {
    'C02': {
        'level': 'exploration',
        'required_probes': ['converged-at-first-permitted-pass', 'converged-at-max_iter', 'moved-exactly-tol', 'some-but-not-all-within-tol', 'max_iter=0', 'negative-t', 'offset-used', 'rejected:IndexError', 'rejected:ValueError', 'empty-check-list', 'sibling-instance-in-history', 'history:copy'],
        'strata': [('scripted-finite', 'solver', 0.7), ('parser-built', 'solver_parser', 0.2), ('outcome-sequences-systematic', 'solver_seq', 0.1)],
        'quick': 40000,
        'thorough': 600000,  # 10 % of it is 60 000 >= the 46 416 points of the outcome-sequence lattice: every point once
    },
    'C06': {
        'level': 'fault_enumeration',
        'required_probes': ['healed', 'preexisting-nonfinite-rejected', 'pass-raised', 'pre-hook-raised', 'post-hook-raised', 'replaced', 'nonfinite-on-last-pass', 'pass-starting-from-nonfinite-not-judged', 'warning-statement:strict', 'warning-statement:lenient'],
        'strata': [('scripted-faults', 'solver_faults', 0.55), ('parser-natural-faults', 'solver_parser', 0.15), ('single-fault-lattice', 'solver_lattice', 0.3)],
        'quick': 40000,
        'thorough': 1420000,  # 30 % of it is 426 000 >= the 422 400 points of the single-fault lattice: every point once
    },
    'C04': {
        'level': 'exploration',
        'required_probes': ['read-at-maximum-lag', 'read-at-maximum-lead', 'first-period-of-default-range', 'last-period-of-default-range', 'negative-spelling', 'rejected:min_iter>max_iter', 'rejected:offset-out-of-span', 'history:reindex'],
        'strata': [('parser-built-recorded', 'frame', 0.9), ('refused-requests-inside-hooks', 'solver', 0.1)],
        'quick': 20000,
        'thorough': 300000,
    },
    'C05': {
        'level': 'fault_enumeration',
        'required_probes': ['empty-span', 'start==end', 'start>end', 'unknown-label', 'multi-position-label', 'fault-at:first', 'fault-at:middle', 'fault-at:last', 'interrupt:before-first-pass', 'interrupt:after-some-seam-calls', 'history:reindex-before-solve', 'repeated-label-inside-range'],
        'strata': [('twin-solve-vs-loops', 'multi', 0.9), ('linker-solve-entry', 'linker', 0.1)],
        'quick': 30000,
        'thorough': 500000,
    },
    'C08': {
        'level': 'exploration',
        'required_probes': ['submodels:0', 'submodels:1', 'proper-subset', 'permuted-selection', 'unknown-id', 'linker-with-own-check-variables', 'offset-used', 'offset-out-of-span', 'linker-of-one-twin', 'history:copy'],
        'strata': [('scripted-linker', 'linker', 1.0)],
        'quick': 30000,
        'thorough': 300000,
    },
    'C09': {
        'level': 'exploration',
        'strata': [('histories', 'container', 0.7), ('operation-pairs-systematic', 'pairs', 0.3)],
        'quick': 16000,
        'thorough': 300000,
    },
    'C10': {
        'level': 'exploration',
        'strata': [('label-histories', 'labels', 0.55), ('mixed-histories', 'container', 0.2), ('small-spans-systematic', 'labels_sys', 0.1), ('label-access-inside-hooks', 'solver_labels', 0.1), ('labelled-terms-in-generated-code', 'frame_labels', 0.05)],
        'quick': 16000,
        'thorough': 300000,
    },
    'C11': {
        'level': 'exploration',
        'strata': [('copies-and-siblings', 'copies', 0.8), ('linker-checkpoints', 'linker', 0.1), ('copies-solved-inside-hooks', 'solver', 0.1)],
        'quick': 12000,
        'thorough': 250000,
    },
    'C12': {
        'level': 'exploration',
        'strata': [('reindex-histories', 'reindex', 0.9), ('small-reindex-systematic', 'reindex_sys', 0.1)],
        'quick': 16000,
        'thorough': 300000,
    },
    'C17': {
        'level': 'exploration',
        'required_probes': ['trace-of-solved-period', 'tracing-off-call-on-traced-party', 'reset=True', 'add_variable-after-trace', 'tracer-combined-with-alias-mixin'],
        'strata': [('triplets', 'tracer', 1.0)],
        'quick': 24000,
        'thorough': 400000,
    },
    'C18': {
        'level': 'exploration',
        'required_probes': ['topology:self-map', 'topology:chain-3', 'topology:many-to-one', 'preferred:ambiguous', 'constructor-keyword-through-alias', 'to_dataframe:preferred-name-applies'],
        'strata': [('aliased-vs-canonical-twin', 'alias', 1.0)],
        'quick': 16000,
        'thorough': 300000,
    },
}

# strata whose schedules are enumerated by run index (point = index mod size in the thorough tier, strided in quick)
SYSTEMATIC = {
    'C02': {'outcome-sequences-systematic': 46416},
    'C06': {'single-fault-lattice': 422400},
    'C09': {'operation-pairs-systematic': 169 * 169},
    'C10': {'small-spans-systematic': 15120},
    'C12': {'small-reindex-systematic': 20160},
}

COMPONENTS = {
    'real': [
        'fsic.core.containers.VectorContainer',
        'fsic.core.interfaces.ModelInterface/SolverMixin',
        'fsic.core.models.BaseModel',
        'fsic.core.linkers.BaseLinker',
        'fsic.extensions (AliasMixin, TracerMixin, PandasIndexFeaturesMixin, ProgressBarMixin)',
        'fsic.parser (parse_model/build_model for workload models)',
        'numpy',
        'pandas (span types, to_dataframe)',
    ],
    'stub': [
        'scripted _evaluate / solve_t_before / solve_t_after (plan-driven, used where a fault must land at an exact pass)',
        'scripted linker hooks',
        'tqdm (not installed): a stand-in class with __iter__ / __len__ so that ProgressBarMixin(progress_bar=True) runs',
        'scripted callbacks (user code calling back into the library from hooks and passes)',
    ],
    'never_run': ['fsic.fortran engine (needs f2py/Meson; not available)'],
}


def run_check(prop, tier, base_seed, runs=None, workers=None, write_evidence=True):
    cfg = PROPS[prop]
    total = runs or cfg[tier if tier in ('quick', 'thorough') else 'quick']
    workers = workers or min(16, os.cpu_count() or 4)
    strata = [(s, w, max(1, int(total * share))) for s, w, share in cfg['strata']]
    ceiling = cfg.get('ceiling_s', 1500 if tier == 'quick' else 7200)
    print(f'[{prop}] tier={tier} VERIF_SEED={base_seed} runs={sum(n for _, _, n in strata)} workers={workers} strata={[(s, n) for s, _, n in strata]}')
    sys.stdout.flush()
    agg = kernel.run_batch(prop, strata, base_seed, tier, workers, ceiling)

    known = [k for k in kernel.load_known() if k.get('property') == prop and k.get('disposition') != 'fixed']
    known_sigs = {k['signature']: k for k in known}
    by_sig = {}
    for v in agg['violations']:
        cur = by_sig.get(v['signature'])
        if cur is None or (v['stratum'], v['idx']) < (cur['stratum'], cur['idx']):
            by_sig[v['signature']] = v
    new = []
    known_hit = []
    for sig in sorted(by_sig):
        (known_hit if sig in known_sigs else new).append(by_sig[sig])
    for v in known_hit:
        print(f"KNOWN-FINDING: property={prop} {known_sigs[v['signature']]['what']} [{v['signature']}]")

    rc = 0
    replays = []
    from . import workloads

    for v in new:
        wl = workloads.get(v['workload'])
        history = []
        if kernel.fails_after(wl, [], v['schedule'], prop, v['signature']) is None:
            # not on a fresh process: the violation needs what the library remembered of earlier runs of its chunk (state
            # kept outside the objects of one run - module- or class-level). The earlier runs of the chunk, regenerated
            # from their seeds, become the history of the replay; as many of them as can be are dropped.
            import random as _random

            for j in range(v.get('chunk_lo', v['idx']), v['idx']):
                sd = kernel.derive_seed(base_seed, prop, v['stratum'], j)
                hs = wl.generate(_random.Random(sd), j, tier)
                hs['seed'], hs['run_index'] = sd, j
                history.append(hs)
            if kernel.fails_after(wl, history, v['schedule'], prop, v['signature']) is not None:
                history = kernel.shrink_history(wl, history, v['schedule'], prop, v['signature'])
        small = kernel.shrink(wl, v['schedule'], prop, v['signature'], history=history)
        vv = kernel.fails_after(wl, history, small, prop, v['signature']) or v
        v2 = dict(v, step=vv['step'], detail=vv['detail'])
        path = kernel.write_replay(prop, v2, small, base_seed, tier, history=history)
        ok, outp = kernel.replay_in_fresh_process(path)
        if not ok:
            raise kernel.HarnessError(f"replay file {path} did not reproduce {v['signature']} in a fresh interpreter:\n{outp}")
        if history:
            print(f"violation needs {len(history)} earlier run(s) of the same process (state remembered outside the run's own objects): replayed first")
        print(f"violation: {v['signature']} seed={v['seed']} run_index={v['idx']} stratum={v['stratum']} minimised to {len(small.get('ops', []))} op(s); detail={kernel.dumps(vv['detail'])[:400]}")
        print(f'VIOLATION property={prop} replay={path}')
        replays.append(path)
        rc = 1

    wall = agg['wall_s']
    steps = agg['counters'].get('steps', 0)
    print(
        f"[{prop}] runs={agg['runs']} wall={wall:.1f}s ({agg['runs'] / max(wall, 1e-9) * 3600:.0f} runs/h) steps={steps} "
        f"distinct_schedules={len(agg['sched'])} states={len(agg['states'])} bigrams={len(agg['bigrams'])} "
        f"asserts={agg['counters'].get('armed_asserts', 0)} violations={len(new)} known={len(known_hit)} batch_digest={agg['digest']}"
    )
    if write_evidence:
        write_evidence_file(prop, tier, base_seed, cfg, agg, new, known_hit, replays, strata, workers)
    zero = [p for p in cfg.get('required_probes', []) if agg['probes'].get(p, 0) == 0]
    if zero:
        print(f'[{prop}] note: reach probes at zero in this batch: {zero}')
    return rc


def write_evidence_file(prop, tier, base_seed, cfg, agg, new, known_hit, replays, strata, workers):
    wall = agg['wall_s']
    steps = agg['counters'].get('steps', 0)
    ev = {
        'property_id': prop,
        'tier': tier if tier in ('quick', 'thorough') else 'quick',
        'seed': int(base_seed),
        'level': cfg['level'],
        'wall_s': round(wall, 3),
        'violations': len(new),
        'coverage': {
            'evaluations': agg['runs'],
            'distinct_nontrivial': len(agg['nontrivial_sched']),
            'rule': (
                'one evaluation = one simulated run (seeded schedule of operations and faults executed against the real '
                'fsic objects with the oracles armed). distinct = SHA-256 of the generated schedule (operations, operands, '
                'options, fault plan) not seen before in this batch; non-trivial = at least one assertion tagged with this '
                'property was evaluated during the run. Both are counted by the kernel from the runs themselves.'
            ),
            'samples': agg['samples'][:3],
            'states': len(agg['states']),
            'transitions': len(agg['bigrams']),
            'state_measure': 'states = distinct abstract states (hash of the oracle-level state after each operation); transitions = distinct (operation kind/outcome class) bigrams',
            'runs_per_hour': round(agg['runs'] / max(wall, 1e-9) * 3600),
            'logical_steps': steps,
            'logical_steps_per_hour': round(steps / max(wall, 1e-9) * 3600),
            'simulated_time': 'not applicable: fsic has no clock or timer; progress is measured in logical steps (operations + evaluation passes + hook calls)',
            'armed_assertions_evaluated': agg['counters'].get('armed_asserts', 0),
            'runs_per_stratum': dict(agg['per_stratum']),
            'faults_fired': dict(sorted(agg['faults'].items())),
            'reach_probes': dict(sorted(agg['probes'].items())),
            'counters': {k: v for k, v in sorted(agg['counters'].items())},
            'seeds': {'base': int(base_seed), 'derivation': 'sha256(base:property:stratum:run_index)[:8]', 'run_indexes': [0, max(n for _, _, n in strata) - 1]},
            'batch_digest': agg['digest'],
            'workers': workers,
            'known_findings_hit': [v['signature'] for v in known_hit],
            'new_violation_signatures': [v['signature'] for v in new],
            'replay_files': replays,
            'systematic_strata': {
                name: {'points': pts, 'runs': int(agg['per_stratum'].get(name, 0)), 'every_point_visited': bool(tier == 'thorough' and agg['per_stratum'].get(name, 0) >= pts)}
                for name, pts in SYSTEMATIC.get(prop, {}).items()
            },
            'required_probes_at_zero': [p_ for p_ in cfg.get('required_probes', []) if agg['probes'].get(p_, 0) == 0],
            'components': COMPONENTS,
            'exhaustive': False,
        },
        'assumptions': [
            'NumPy and pandas behave as documented (the reference casts with NumPy, fsic is not trusted)',
            'the judge / reference models in /verif/sim restate the property text correctly (DESIGN.md sections 2.4 and 3)',
            'sampling, not proof: a clean batch covers the schedules explored, see reach_probes for which corners were visited',
        ],
    }
    os.makedirs(os.path.join(VERIF, 'evidence'), exist_ok=True)
    with open(os.path.join(VERIF, 'evidence', f'{prop}.json'), 'w') as f:
        json.dump(ev, f, indent=1, sort_keys=True, default=kernel._default)
        f.write('\n')
