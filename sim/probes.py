"""Scripted models, probes, recording arrays and the line-event budget.

A *scripted* class overrides the three seams the solver already offers
(`solve_t_before`, `_evaluate`, `solve_t_after`). What each call does is read
from a plan installed by the simulator before every solver operation, so a
fault can be placed at an exact (period, pass). Everything the seam observes is
appended to the controller's log; the oracles read that log, never fsic's own
bookkeeping.
"""
import sys
import warnings

import numpy as np

SPECIALS = {'nan': float('nan'), 'inf': float('inf'), '-inf': float('-inf')}


def fval(v):
    return SPECIALS[v] if isinstance(v, str) else float(v)


def num(x):
    """The exact Python number held by an array element (an int stays an int: no detour through float64)."""
    if isinstance(x, (np.integer, np.bool_)):
        return int(x)
    if isinstance(x, np.generic):
        return x.item()
    return x


class SimInterrupt(BaseException):
    """Injected interruption (the analogue of Ctrl-C / MemoryError); not an `Exception`."""


class InjectedError(Exception):
    """A custom exception class, to check that arbitrary user exceptions are chained."""


def _fsic_exc(name):
    import fsic.exceptions as fx

    return getattr(fx, name)


class _LazyExceptions(dict):
    """Exception classes by name; fsic's own classes are looked up when first used (a user hook may well raise them)."""

    def __missing__(self, key):
        if key.startswith('fsic.'):
            self[key] = _fsic_exc(key[5:])
            return self[key]
        raise KeyError(key)


EXCEPTION_NAMES = ['ZeroDivisionError', 'ValueError', 'KeyError', 'IndexError', 'InjectedError', 'FloatingPointError', 'fsic.SolutionError', 'fsic.NonConvergenceError', 'fsic.DimensionError']

EXCEPTIONS = _LazyExceptions({
    'ZeroDivisionError': ZeroDivisionError,
    'ValueError': ValueError,
    'KeyError': KeyError,
    'IndexError': IndexError,
    'InjectedError': InjectedError,
    'FloatingPointError': FloatingPointError,
})


WARNING_CATEGORIES = {
    'RuntimeWarning': RuntimeWarning,
    'UserWarning': UserWarning,
    'FutureWarning': FutureWarning,
    'DeprecationWarning': DeprecationWarning,
}


NESTING = [0]  # > 0 while any scripted callback is running (a callback on one object may drive other objects' seams)


class Ctl:
    """Per-instance controller: plan in, log out. Copies start with a fresh controller."""

    def __init__(self):
        self.plan = {}
        self.log = []
        self.count = {}
        self.raised = []
        self.budget = None  # optional: raise SimInterrupt at the k-th seam call
        self.sink = None  # optional: list shared with recording arrays (C04)
        self.columns = False  # record the whole column of period t before/after every seam call (C17)
        self.bus = None  # optional: list shared by several parties, global order of seam calls (C08)
        self.caller_arrays = []  # (name, array the caller passed to the constructor, pristine copy)
        self.tag = None
        self.depth = 0  # > 0 while a scripted callback (user code calling back into the library) is running
        self.nested = []  # seam calls made from inside a callback (kept apart from the history that is judged)
        self.ncount = {}
        self.callbacks = []  # (kind, outcome) of every callback performed
        self.nested_raised = []
        self.nested_calls = []  # solves made by callbacks on this very object, each with what is needed to judge it
        self.expected_check = None  # the check list the workload expects (None: the class's own)
        self.expected_endogenous = None  # likewise the endogenous list

    def arm(self, plan, bus=None, tag=None):
        self.plan = plan or {}
        self.log = []
        self.count = {}
        self.raised = []
        self.bus = bus
        self.tag = tag
        self.depth = 0
        self.nested = []
        self.ncount = {}
        self.callbacks = []
        self.nested_raised = []
        self.nested_calls = []

    def __deepcopy__(self, memo):
        return Ctl()


def get_ctl(obj):
    # (a copy that did not carry the harness's own unregistered `__dict__` entry over simply gets a fresh controller)
    c = obj.__dict__.get('_ctl')
    return c if c is not None else attach_ctl(obj)


def attach_ctl(obj):
    obj.__dict__['_ctl'] = Ctl()
    return obj.__dict__['_ctl']


def _plan_for(ctl, tn):
    p = ctl.plan.get(str(tn))
    if p is None:
        p = ctl.plan.get('*', {})
    return p


def _perform(self, t, act, endo):
    """Apply one scripted action at raw position `t` (as received from the solver)."""
    d = self.__dict__
    kind = act.get('a', 'delta')
    if kind == 'noop':
        return
    if kind == 'raise':
        upto = act.get('partial', 0)
        for j, nm in enumerate(endo[:upto]):
            d['_' + nm][t] = d['_' + nm][t] + 1.0
        exc = EXCEPTIONS[act['exc']]() if act.get('noargs') else EXCEPTIONS[act['exc']](f"injected {act['exc']}")
        raise exc
    if kind == 'pywarn':
        cat = WARNING_CATEGORIES[act.get('cat', 'RuntimeWarning')]
        if act.get('when') == 'before':
            warnings.warn('injected warning before store', cat)
        for j, nm in enumerate(endo):
            d['_' + nm][t] = d['_' + nm][t] + fval(act['d'][j])
        if act.get('when') != 'before':
            warnings.warn('injected warning after store', cat)
        return
    if kind == 'npwarn':
        jj, op = act['j'], act['op']
        for j, nm in enumerate(endo):
            if j == jj:
                one = np.float64(1.0)
                zero = np.float64(0.0)
                if op == 'div0':
                    d['_' + nm][t] = one / zero
                elif op == 'log0':
                    d['_' + nm][t] = np.log(zero)
                elif op == 'exp':
                    d['_' + nm][t] = np.exp(np.float64(1000.0))
                elif op == 'invalid':
                    d['_' + nm][t] = zero / zero
                else:
                    raise AssertionError(op)
            else:
                d['_' + nm][t] = d['_' + nm][t] + fval(act['d'][j])
        return
    if kind == 'npunder':
        # a harmless underflow: finite result, and NumPy's default error state does not even warn about it
        for j, nm in enumerate(endo):
            if j == act['j']:
                d['_' + nm][t] = np.float64(1e-200) * np.float64(1e-200) + fval(act['v'])
            else:
                d['_' + nm][t] = d['_' + nm][t] + fval(act['d'][j])
        return
    if kind == 'delta':
        for j, nm in enumerate(endo):
            if d['_' + nm].dtype.kind in 'iu':
                d['_' + nm][t] = int(d['_' + nm][t]) + int(act['d'][j])  # integer models: exact integer arithmetic
            else:
                d['_' + nm][t] = d['_' + nm][t] + fval(act['d'][j])
        return
    if kind == 'set':
        for j, nm in enumerate(endo):
            v = act['v'][j]
            if v is not None:
                d['_' + nm][t] = int(v) if (d['_' + nm].dtype.kind in 'iu' and not isinstance(v, str)) else fval(v)
        return
    if kind == 'half':
        # contraction towards c_j: x <- x/2 + c_j/2 (exact in binary for dyadic data)
        for j, nm in enumerate(endo):
            d['_' + nm][t] = d['_' + nm][t] / 2.0 + fval(act['c'][j]) / 2.0
        return
    if kind == 'copyfrom':
        # linker cross-link / generic read: endo[j][t] = other[name][t + off] + d
        raise AssertionError('copyfrom is linker-only')
    raise AssertionError(kind)


def _hook_action(self, t, act):
    d = self.__dict__
    kind = act.get('a', 'noop')
    if kind == 'noop':
        return
    if kind == 'raise':
        raise EXCEPTIONS[act['exc']]() if act.get('noargs') else EXCEPTIONS[act['exc']](f"injected {act['exc']} in hook")
    if kind == 'pywarn':
        warnings.warn('injected warning in hook', WARNING_CATEGORIES[act.get('cat', 'RuntimeWarning')])
        return
    if kind == 'setx':
        # modify a non-check variable at t (legal user behaviour in a hook)
        d['_' + act['name']][t] = fval(act['v'])
        return
    raise AssertionError(kind)


QUIET = {'min_iter': 0, 'max_iter': 2, 'tol': 1.0, 'offset': 0, 'failures': 'ignore', 'errors': 'ignore', 'catch_first_error': True}


def _satellite():
    """Another tracer-extended model altogether (its own variable names), as a hook might solve alongside."""
    import fsic
    from fsic.extensions import TracerMixin

    Sat = type('Satellite', (TracerMixin, fsic.BaseModel), {'ENDOGENOUS': ['S'], 'EXOGENOUS': [], 'NAMES': ['S'], 'CHECK': ['S'], '_evaluate': lambda self, t, **kw: None})
    return Sat(range(3))


def _callback(self, t, tn, cb, ctl, kw=None):
    """User code that calls back into the library while the library is calling it (a hook or an equation that copies the
    model, evaluates an expression, exports a table, solves another period or another model, makes a call that is
    refused...). Whatever the callback's own outcome, it is the user's; what is judged is the operation under way."""
    what = cb['what']
    d = self.__dict__
    n = len(d['span'])
    quiet = dict(max_iter=2, tol=1.0, failures='ignore', errors='ignore')
    ctl.depth += 1
    res = 'ok'
    try:
        if what == 'copy':
            c = self.copy()
            if cb.get('solve'):
                c.solve_t(tn, **quiet)  # another object of the same class solved in the middle of this one's solve
        elif what == 'deepcopy':
            import copy as _copy

            _copy.deepcopy(self)
        elif what == 'eval':
            self.eval(cb.get('expr', '1 + 1'))
        elif what == 'export':
            self.to_dataframe()
            self.values  # noqa: B018
            self.size  # noqa: B018
        elif what == 'reindex':
            self.reindex(d['span'])
        elif what == 'iter':
            list(self.iter_periods())
        elif what == 'bad_call':
            # a nested request that must be refused before anything changes (C02): bad iteration window / no such period
            if cb.get('how') == 'window':
                self.solve_t(tn, min_iter=3, max_iter=2)
            elif cb.get('how') == 'offset':
                self.solve_t(tn, offset=n + 1)
            elif cb.get('how') == 'margin' and (getattr(self, 'lags', 0) or getattr(self, 'leads', 0)):
                # a period inside the lag / lead margin (by position, or spelt from the end): refused like any other
                # period the model cannot be solved for, whatever call is under way
                lg_, ld_ = getattr(self, 'lags', 0), getattr(self, 'leads', 0)
                self.solve_t((lg_ - 1) if (lg_ and (not ld_ or cb.get('side') == 'lag')) else (-1 if cb.get('spelt') == 'negative' else n - ld_))
            else:
                self.solve_t(n + 3)
        elif what == 'nested_solve':
            tn2 = cb.get('tn2')
            if cb.get('rel') is not None:
                tn2 = tn + cb['rel']  # (a neighbouring period, e.g. the one just solved)
                if not (getattr(self, 'lags', 0) <= tn2 < n - getattr(self, 'leads', 0)):
                    tn2 = None
            if tn2 is not None and tn2 != tn and 0 <= tn2 < n:
                # another period of the same model, solved from inside this period's solve; judged on its own afterwards
                snap_ = {nm: d['_' + nm].copy() for nm in d['index']}
                n0, r0 = len(ctl.nested), len(ctl.nested_raised)
                try:
                    out_ = {'kind': 'return', 'value': self.solve_t(tn2, **quiet)}
                except SimInterrupt:
                    raise
                except Exception as e_:
                    out_ = {'kind': 'raise', 'exc': e_}
                    res = type(e_).__name__
                ctl.nested_calls.append({'t': tn2, 'opts': dict(QUIET), 'snap': snap_, 'post': {nm: d['_' + nm].copy() for nm in d['index']}, 'log': ctl.nested[n0:], 'raised': ctl.nested_raised[r0:], 'outcome': out_})
        elif what == 'rebind':
            # a whole series replaced by an equal list: the container stores a new array under the same name, and
            # whoever is half-way through an operation must go on reading and writing by name
            names_ = [x for x in cb.get('names', []) if x in d['index']]
            for nm in names_:
                if cb.get('via') == 'replace_values':
                    self.replace_values(**{nm: d['_' + nm].tolist()})
                elif cb.get('via') == 'item':
                    self[nm] = d['_' + nm].tolist()
                else:
                    setattr(self, nm, d['_' + nm].tolist())
        elif what == 'forward':
            # the hook passes the keywords it was given on to another model
            sat = _satellite()
            sat.solve_t(0, trace=(kw or {}).get('trace'), **quiet)
        elif what == 'label_probe':
            # label access from inside a hook: the labels mean what they mean outside one
            nm = d['index'][cb.get('v', 0) % len(d['index'])]
            arr = d['_' + nm]
            sp = d['span']
            a_, b_ = sorted((cb.get('a', 0) % n, tn))
            labs_ = [repr(x) for x in sp]
            probes_ = [] if len(set(labs_)) != len(labs_) else [
                ('get-label', lambda: self[nm, sp[tn]], lambda: arr[tn]),
                ('slice-to-current', lambda: self[nm, : sp[tn]], lambda: arr[: tn + 1]),
                ('slice-from-current', lambda: self[nm, sp[tn] :], lambda: arr[tn:]),
                ('slice-a-b', lambda: self[nm, sp[a_] : sp[b_]], lambda: arr[a_ : b_ + 1]),
                ('slice-stepped', lambda: self[nm, sp[a_] : sp[b_] : 2], lambda: arr[a_ : b_ + 1 : 2]),
            ]
            for name_, got_, want_ in probes_:
                g_, w_ = np.asarray(got_()), np.asarray(want_())
                same_ = g_.shape == w_.shape and all(str(x) == str(y) for x, y in zip(g_.ravel().tolist(), w_.ravel().tolist()))
                if not same_:
                    res = 'MISMATCH:' + name_
                    break
        elif what == 'add_variable':
            nm = 'CB%d' % len([x for x in d['index'] if x.startswith('CB')])
            self.add_variable(nm, 0.0)
        elif what == 'label':
            self[d['index'][0], d['span'][cb.get('pos', 0) % n]]  # noqa: B018  a label lookup
        else:
            raise AssertionError(what)
    except SimInterrupt:
        raise
    except Exception as e:  # the user's own try / except around the callback
        res = type(e).__name__
    finally:
        ctl.depth -= 1
    ctl.callbacks.append((what, res))


def _column(d, t):
    out = {}
    for nm in d['names']:
        v = d['_' + nm][t]
        out[nm] = num(v) if isinstance(v, (float, int, np.floating, np.integer)) else str(v)
    return out


def _filter_mode():
    f = warnings.filters
    return f[0][0] if f else None


def make_scripted(fsic, spec, bases=None, extra_attrs=None):
    """Build a fresh scripted class. spec: endo, exo, check, lags, leads."""
    endo = list(spec['endo'])
    exo = list(spec.get('exo', []))
    check = list(spec.get('check', endo))
    if bases is None:
        bases = (fsic.BaseModel,)

    def seam_call(self, hook, t, kw):
        ctl = get_ctl(self)
        n = len(self.__dict__['span'])
        tn = t + n if t < 0 else t
        key = f'{hook}:{tn}'
        if ctl.depth or NESTING[0]:
            # user code (a scripted callback) has called back into the library and the library is calling user code
            # again: these seam calls are kept apart from the history of the operation under way (and judged on their
            # own where the callback solved another period of this object)
            k = ctl.ncount[key] = ctl.ncount.get(key, 0) + 1
            d_ = self.__dict__
            nrec = {'hook': hook, 't': int(t), 'tn': int(tn), 'k': k, 'iteration': kw.get('iteration'), 'kw': sorted(kw), 'errors': kw.get('errors'), 'cfe': kw.get('catch_first_error'),
                    'pre': [num(d_['_' + nm][t]) for nm in endo], 'pre_all': None, 'filter': _filter_mode(), 'exc': None, 'act': 'half' if hook == 'eval' else 'noop'}
            ctl.nested.append(nrec)
            if hook == 'eval':
                for nm in endo:
                    if d_['_' + nm].dtype.kind == 'f':
                        d_['_' + nm][t] = d_['_' + nm][t] / 2.0 + 0.25  # a contraction: the nested solve goes somewhere
            nrec['post_endo'] = [num(d_['_' + nm][t]) for nm in endo]
            nrec['post'] = [num(d_['_' + nm][t]) for nm in (ctl.expected_check if ctl.expected_check is not None else check)]  # (the list the harness expects, as for the outer call)
            return
        k = ctl.count[key] = ctl.count.get(key, 0) + 1
        d = self.__dict__
        rec = {
            'hook': hook,
            't': int(t),
            'tn': int(tn),
            'k': k,
            'iteration': kw.get('iteration'),
            'kw': sorted(kw),
            'errors': kw.get('errors'),
            'cfe': kw.get('catch_first_error'),
            'pre': [num(d['_' + nm][t]) for nm in endo],
            'pre_all': _column(d, t) if ctl.columns else None,
            'filter': _filter_mode(),
            'exc': None,
        }
        ctl.log.append(rec)
        if ctl.bus is not None:
            ctl.bus.append((ctl.tag, hook, int(tn), k, kw.get('iteration')))
        if ctl.budget is not None:
            ctl.budget -= 1
            if ctl.budget < 0:
                rec['exc'] = 'SimInterrupt'
                raise SimInterrupt()
        p = _plan_for(ctl, tn)
        cbs = [cb for cb in p.get('cb', ()) if cb['hook'] == hook and cb.get('k', 1) == k]
        try:
            for cb in cbs:
                if cb.get('when', 'pre') == 'pre':
                    _callback(self, t, tn, cb, ctl, kw)
            if hook == 'eval':
                passes = p.get('passes', [])
                act = passes[k - 1] if k - 1 < len(passes) else p.get('default', {'a': 'delta', 'd': [0.0] * len(endo)})
                if p.get('moving_until') is not None and k < p['moving_until']:
                    act = p['moving']  # (long runs: every pass before this one moves)
                rec['act'] = act.get('a')
                if act.get('a') == 'npwarn':
                    rec['npwarn_j'] = act['j']
                _perform(self, t, act, endo)
            else:
                act = p.get(hook) or {'a': 'noop'}
                rec['act'] = act.get('a')
                _hook_action(self, t, act)
            for cb in cbs:
                if cb.get('when', 'pre') == 'post':
                    _callback(self, t, tn, cb, ctl, kw)
        except BaseException as e:
            rec['exc'] = type(e).__name__
            ctl.raised.append(e)
            raise
        finally:
            rec['post_endo'] = [num(d['_' + nm][t]) for nm in endo]
            drift = p.get('drift')
            if drift and hook == 'eval' and rec['exc'] is None and drift['name'] in d['index']:
                # a check variable that is not endogenous (one the user added, of a dtype of its own) moves every pass
                d['_' + drift['name']][t] = d['_' + drift['name']][t] + fval(drift['d'])
            # (the check variables as the harness expects them: the class's list and the edits the history itself made to
            #  the instance's - never read back from the instance, whose list is part of what is being judged)
            rec['post'] = [num(d['_' + nm][t]) for nm in (ctl.expected_check if ctl.expected_check is not None else check)]
            if ctl.columns:
                rec['post_all'] = _column(d, t)

    def solve_t_before(self, t, **kw):
        seam_call(self, 'before', t, kw)

    def solve_t_after(self, t, **kw):
        seam_call(self, 'after', t, kw)

    def _evaluate(self, t, **kw):
        seam_call(self, 'eval', t, kw)

    ns = {
        'ENDOGENOUS': list(endo),
        'EXOGENOUS': list(exo),
        'NAMES': list(endo) + list(exo),
        'CHECK': list(check),
        'LAGS': int(spec.get('lags', 0)),
        'LEADS': int(spec.get('leads', 0)),
        'solve_t_before': solve_t_before,
        'solve_t_after': solve_t_after,
        '_evaluate': _evaluate,
    }
    if extra_attrs:
        ns.update(extra_attrs)
    return type('Scripted', tuple(bases), ns)


def new_scripted_instance(cls, span, init, **kw):
    m = cls(span, **kw)
    for nm, vals in init.items():
        if m.__dict__['_' + nm].dtype.kind in 'iu' and all(isinstance(v, int) for v in vals):
            m.__dict__['_' + nm][:] = np.array(vals, dtype=np.int64)  # (exactly: these may lie beyond 2**53)
            continue
        m.__dict__['_' + nm][:] = np.array([fval(v) for v in vals], dtype=float)
    attach_ctl(m)
    return m


# ----------------------------------------------------------------------------
# probe around a parser-generated class: records what each real pass did


def make_probed(fsic, base_cls, check=None):
    """Subclass of a parser-built class whose seams log to the controller and then run the real code."""

    def log_call(self, hook, t, kw, fn):
        ctl = get_ctl(self)
        n = len(self.__dict__['span'])
        tn = t + n if t < 0 else t
        key = f'{hook}:{tn}'
        k = ctl.count[key] = ctl.count.get(key, 0) + 1
        d = self.__dict__
        endo = list(type(self).ENDOGENOUS)
        chk = list(check) if check is not None else list(type(self).CHECK)
        rec = {
            'hook': hook,
            't': int(t),
            'tn': int(tn),
            'k': k,
            'iteration': kw.get('iteration'),
            'kw': sorted(kw),
            'errors': kw.get('errors'),
            'cfe': kw.get('catch_first_error'),
            'pre': [num(d['_' + nm][t]) for nm in endo] if -n <= t < n else None,
            'pre_all': _column(d, t) if (ctl.columns and -n <= t < n) else None,
            'filter': _filter_mode(),
            'exc': None,
            'act': 'real',
        }
        ctl.log.append(rec)
        if ctl.budget is not None:
            ctl.budget -= 1
            if ctl.budget < 0:
                rec['exc'] = 'SimInterrupt'
                raise SimInterrupt()
        sink = getattr(ctl, 'sink', None)
        if sink is not None:
            sink.append(('@', 'begin', hook, int(t)))
        try:
            fn(self, t, **kw)
        except BaseException as e:
            rec['exc'] = type(e).__name__
            ctl.raised.append(e)
            raise
        finally:
            if sink is not None:
                sink.append(('@', 'end', hook, int(t), rec['exc'] is not None))
            if -n <= t < n:
                rec['post_endo'] = [num(d['_' + nm][t]) for nm in endo]
                rec['post'] = [num(d['_' + nm][t]) for nm in chk]
                if ctl.columns:
                    rec['post_all'] = _column(d, t)

    def solve_t_before(self, t, **kw):
        log_call(self, 'before', t, kw, base_cls.solve_t_before)

    def solve_t_after(self, t, **kw):
        log_call(self, 'after', t, kw, base_cls.solve_t_after)

    def _evaluate(self, t, **kw):
        log_call(self, 'eval', t, kw, base_cls._evaluate)

    return type(
        'Probed',
        (base_cls,),
        {'solve_t_before': solve_t_before, 'solve_t_after': solve_t_after, '_evaluate': _evaluate},
    )


# ----------------------------------------------------------------------------
# recording ndarray: every element read/write made through it is logged


class RecArray(np.ndarray):
    """ndarray view that logs integer-index reads and writes to `rec_sink` (a list) as (name, 'r'|'w', index)."""

    rec_name = None
    rec_sink = None

    def __array_finalize__(self, obj):
        if obj is not None:
            self.rec_name = getattr(obj, 'rec_name', None)
            self.rec_sink = getattr(obj, 'rec_sink', None)

    def __getitem__(self, idx):
        sink = self.rec_sink
        if sink is not None:
            sink.append((self.rec_name, 'r', idx if isinstance(idx, (int, np.integer)) else repr(idx)))
        out = super().__getitem__(idx)
        if isinstance(out, RecArray):
            return np.asarray(out)
        return out

    def __setitem__(self, idx, value):
        sink = self.rec_sink
        if sink is not None:
            sink.append((self.rec_name, 'w', idx if isinstance(idx, (int, np.integer)) else repr(idx)))
        super().__setitem__(idx, value)


def install_recorders(obj, names, sink):
    """Swap the named series for recording views sharing the same memory. Returns an undo function."""
    saved = {}
    for nm in names:
        arr = obj.__dict__['_' + nm]
        saved[nm] = arr
        v = arr.view(RecArray)
        v.rec_name = nm
        v.rec_sink = sink
        obj.__dict__['_' + nm] = v

    def undo():
        for nm, arr in saved.items():
            obj.__dict__['_' + nm] = arr

    return undo


# ----------------------------------------------------------------------------
# interpreter line events: deterministic step budget and interruption point


class LineBudget:
    """Counts 'line' events in frames whose code lives under the given path prefixes.

    mode 'count': just count. mode 'stop': raise BudgetExceeded at event `limit`.
    mode 'interrupt': raise SimInterrupt at event `limit`.
    """

    class Exceeded(BaseException):
        pass

    def __init__(self, prefixes, limit=None, mode='count', extra_filenames=('<string>',)):
        self.prefixes = tuple(prefixes)
        self.extra = tuple(extra_filenames)
        self.limit = limit
        self.mode = mode
        self.n = 0
        self.fired = False
        self.where = None

    def _interesting(self, code):
        fn = code.co_filename
        return fn.startswith(self.prefixes) or fn in self.extra

    def _local(self, frame, event, arg):
        if event == 'line':
            self.n += 1
            if self.limit is not None and self.n >= self.limit and not self.fired:
                self.fired = True
                self.where = (frame.f_code.co_filename.rsplit('/', 1)[-1], frame.f_code.co_name, frame.f_lineno)
                if self.mode == 'stop':
                    raise LineBudget.Exceeded()
                if self.mode == 'interrupt':
                    raise SimInterrupt()
        return self._local

    def _global(self, frame, event, arg):
        if event == 'call' and self._interesting(frame.f_code):
            return self._local
        return None

    def run(self, fn, *a, **kw):
        old = sys.gettrace()
        sys.settrace(self._global)
        try:
            return fn(*a, **kw)
        finally:
            sys.settrace(old)


# ----------------------------------------------------------------------------
# tqdm stand-in (ProgressBarMixin imports tqdm lazily; the package is not installed here)


class _FakeTqdm:
    """What ProgressBarMixin needs of tqdm.tqdm: wraps an iterable, keeps its length, yields its items, prints nothing."""

    made = 0

    def __init__(self, iterable=None, *args, **kwargs):
        self.iterable = iterable
        type(self).made += 1

    def __iter__(self):
        return iter(self.iterable)

    def __len__(self):
        return len(self.iterable)


def install_fake_tqdm():
    import sys
    import types

    mod = sys.modules.get('tqdm')
    if mod is None or not getattr(mod, '_fsic_sim_stub', False):
        mod = types.ModuleType('tqdm')
        mod._fsic_sim_stub = True
        mod.tqdm = _FakeTqdm
        sys.modules['tqdm'] = mod
    return mod


def mixin_table():
    from fsic.extensions import AliasMixin, PandasIndexFeaturesMixin, ProgressBarMixin, TracerMixin

    install_fake_tqdm()
    return {'alias': AliasMixin, 'tracer': TracerMixin, 'pandas': PandasIndexFeaturesMixin, 'progress': ProgressBarMixin}


# ----------------------------------------------------------------------------
# parser-built workload models: one checked route from script to class

ALL_PROPS = ['C02', 'C04', 'C05', 'C06', 'C08', 'C09', 'C10', 'C11', 'C12', 'C17', 'C18']


def build_options(rng, prog, allow_shorter=False):
    """Seeded options for build_model (the defaults most of the time)."""
    r = rng.random()
    if r < 0.7:
        return {}
    if r < 0.82:
        return {'with_type_hints': False}
    if r < 0.88:
        return {'min_lags': rng.choice([0, 1, prog['lags'] + 1]), 'min_leads': rng.choice([0, 1, prog['leads'] + 1])}
    if r < 0.94:
        return {'lags': prog['lags'] + rng.choice([0, 1, 2]), 'leads': prog['leads'] + rng.choice([0, 0, 1])}
    if allow_shorter:
        return {rng.choice(['lags', 'leads']): 0}  # imposed, also where the script itself looks further
    return {'with_type_hints': False, 'min_lags': prog['lags']}


def expected_lags_leads(prog_lags, prog_leads, opts):
    lags = opts['lags'] if 'lags' in opts else max(prog_lags, opts.get('min_lags', 0))
    leads = opts['leads'] if 'leads' in opts else max(prog_leads, opts.get('min_leads', 0))
    return lags, leads


def build_parser_class(fsic, model, ctx, who='model'):
    """parse_model + build_model for a workload script (model: script, names, endo, lags, leads, [declared, build]).

    The scripts come from the workload's own generator and lie inside the documented syntax: one that does not build, or a
    class whose variables / lag and lead lengths are not the script's, cannot satisfy any of the claimed properties ("for
    every model ..."), so that is a discrepancy for whichever check is running - not a run to skip. Returns None then."""
    opts = dict(model.get('build') or {})

    def flag(sig, detail):
        for prop in ALL_PROPS:
            ctx.check(prop, sig, False, detail)

    try:
        cls = fsic.build_model(fsic.parse_model(model['script']), **opts)
    except Exception as e:
        flag('parser-built-model/does-not-build', {'exc': type(e).__name__, 'msg': str(e)[:160], 'script': model['script'][:300], 'options': opts})
        return None
    if opts:
        ctx.probe('build-options:' + '+'.join(sorted(opts)))
    if set(cls.NAMES) != set(model['names']):
        flag('parser-built-model/variables-are-not-the-scripts', {'class': sorted(cls.NAMES), 'script-names': sorted(model['names']), 'script': model['script'][:300]})
        return None
    if set(cls.ENDOGENOUS) != set(model['endo']):
        flag('parser-built-model/endogenous-are-not-the-left-hand-sides', {'class': sorted(cls.ENDOGENOUS), 'left-hand-sides': sorted(model['endo']), 'script': model['script'][:300]})
        return None
    want = expected_lags_leads(model['lags_script'] if 'lags_script' in model else model['lags'], model['leads_script'] if 'leads_script' in model else model['leads'], opts)
    if (cls.LAGS, cls.LEADS) != want:
        flag('parser-built-model/lag-and-lead-lengths', {'class': [cls.LAGS, cls.LEADS], 'want': list(want), 'options': opts, 'script': model['script'][:300]})
        return None
    if model.get('declared') is not None:
        # (C09: `values` is the stack of the variables in declaration order)
        ctx.check('C09', 'parser-built-model/names-in-declaration-order', list(cls.NAMES) == list(model['declared']), {'class': list(cls.NAMES), 'declared': list(model['declared'])})
    return cls
