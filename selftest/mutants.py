"""One-line mutants of fsic for the sensitivity self-test. Each is a (file, find, replace) string edit that must
match exactly once on the current tree; `expect` lists the properties whose quick check must report a VIOLATION."""

M = []


def m(id_, file, find, replace, expect, note=''):
    M.append({'id': id_, 'file': file, 'find': find, 'replace': replace, 'expect': expect, 'note': note})


MOD = 'fsic/core/models.py'
INT = 'fsic/core/interfaces.py'
CON = 'fsic/core/containers.py'
LNK = 'fsic/core/linkers.py'
COM = 'fsic/extensions/common.py'
EXT = 'fsic/extensions/model.py'

# ---- solver (C02 / C06)
m('M01', MOD, 'if np.all(np.abs(diff) < tol):', 'if np.all(np.abs(diff) <= tol):', ['C02'], 'tol comparison not strict')
m('M02', MOD, 'if np.all(np.abs(diff) < tol):', 'if np.any(np.abs(diff) < tol):', ['C02'], 'any instead of all')
m('M03', MOD, '            if iteration < min_iter:\n                continue\n\n            diff = current_values - previous_values', '            if iteration <= min_iter:\n                continue\n\n            diff = current_values - previous_values', ['C02'], 'min_iter boundary')
m('M04', MOD, '        for iteration in range(1, max_iter + 1):\n            previous_values = current_values.copy()', '        for iteration in range(1, max_iter):\n            previous_values = current_values.copy()', ['C02'], 'one pass short')
m('M05', MOD, "        self.status[t] = status\n        self.iterations[t] = iteration\n", "        self.status[t] = status\n        self.iterations[t] = iteration - 1\n", ['C02'], 'iterations off by one')
m('M06', MOD, "self.__dict__['_' + name][t] = self.__dict__['_' + name][t + offset]", "self.__dict__['_' + name][t] = self.__dict__['_' + name][t - offset]", ['C02'], 'offset sign')
m('M07', MOD, '            if t_check + offset >= len(self.span):', '            if t_check + offset > len(self.span):', ['C02'], 'upper offset bound off by one')
m('M09', MOD, "        if errors == 'raise' and np.any(~np.isfinite(current_values)):", "        if False and errors == 'raise' and np.any(~np.isfinite(current_values)):", ['C06'], 'pre-existing check dropped')
m('M10', MOD, '            if np.any(~np.isfinite(previous_values)):\n                continue', '            if False and np.any(~np.isfinite(previous_values)):\n                continue', ['C06'], 'previous-non-finite continue dropped')
m('M11', MOD, "                elif errors == 'skip':\n                    status = SolutionStatus.SKIPPED.value", "                elif errors == 'skip':\n                    status = SolutionStatus.FAILED.value", ['C06'], 'skip records F')
m('M12', MOD, "                    if errors == 'raise':\n                        self.status[t] = SolutionStatus.ERROR.value\n                        self.iterations[t] = iteration\n\n                    raise SolutionError(\n                        f'Error after", "                    if errors == 'raise':\n                        self.status[t] = SolutionStatus.FAILED.value\n                        self.iterations[t] = iteration\n\n                    raise SolutionError(\n                        f'Error after", ['C06'], 'exception in pass records F')
m('M13', MOD, "                        f'in period with label: {self.span[t]} (index: {t})'\n                    ) from e\n\n            current_values = get_check_values()", "                        f'in period with label: {self.span[t]} (index: {t})'\n                    )\n\n            current_values = get_check_values()", ['C06'], 'from e dropped')
m('M14', MOD, "                if errors == 'raise' and catch_first_error:\n                    # Immediately raise", "                if errors == 'raise':\n                    # Immediately raise", ['C06'], 'catch_first_error ignored in passes')
m('M15', MOD, "            if np.all(np.abs(diff) < tol):\n                with warnings", "            if True:\n                with warnings", ['C02'], 'always converge when judged')
m('M16', MOD, "        return status == SolutionStatus.SOLVED.value", "        return status != SolutionStatus.FAILED.value", ['C06'], 'skip reported as solved')
m('M17', MOD, "                    if iteration == max_iter:\n                        status = SolutionStatus.FAILED.value\n                        break\n                    else:\n                        current_values[~np.isfinite(current_values)] = 0.0\n                        continue", "                    if iteration == max_iter:\n                        status = SolutionStatus.FAILED.value\n                        break\n                    else:\n                        continue", ['C06'], 'replace does not replace')
m('M18', MOD, "                    self.solve_t_before(\n                    t,", "                    self.solve_t_before(\n                    t + 0 * self.solve_t_before(t) if False else t,", [], 'placeholder (never applied)')

# ---- multi-period (C05)
m('M20', INT, "            start = self.span[self.lags]", "            start = self.span[0]", ['C05', 'C04'], 'default start ignores lags')
m('M21', INT, "            end = self.span[-1 - self.leads]", "            end = self.span[-1]", ['C05', 'C04'], 'default end ignores leads')
m('M22', INT, "self._locate_period_in_span(start), self._locate_period_in_span(end) + 1\n", "self._locate_period_in_span(start), self._locate_period_in_span(end)\n", ['C05'], 'end exclusive')
m('M23', INT, "        if end is not None and not isinstance(self._locate_period_in_span(end), int):\n            raise KeyError(end)", "        pass", ['C05'], 'end label validation removed')
m('M24', INT, "                tol=tol,\n                offset=offset,\n                failures=failures,\n                errors=errors,\n                catch_first_error=catch_first_error,\n                **kwargs,\n            )\n\n        return labels, indexes, solved", "                tol=tol,\n                failures=failures,\n                errors=errors,\n                catch_first_error=catch_first_error,\n                **kwargs,\n            )\n\n        return labels, indexes, solved", ['C05'], 'solve() drops offset')
m('M25', INT, "            indexes[i] = t\n            labels[i] = period\n            solved[i] = self.solve_t(\n                t,\n                min_iter=min_iter,", "            indexes[i] = t\n            labels[i] = period\n            solved[i] = self.solve_t(\n                t,\n                min_iter=min_iter if i else 0,", ['C05'], 'first period ignores min_iter')
m('M26', INT, "        t = self._locate_period_in_span(period)\n\n        if not isinstance(t, int):\n            raise KeyError(\n                f'Invalid `period` argument: unable to convert to an integer '\n                f'(a single location in `self.span`). '\n                f'`period` resolved to type {type(t)} with value {t}'\n            )\n\n        return self.solve_t(\n            t,\n            min_iter=min_iter,\n            max_iter=max_iter,\n            tol=tol,\n            offset=offset,\n            failures=failures,", "        t = self._locate_period_in_span(period)\n\n        if not isinstance(t, int):\n            raise KeyError(\n                f'Invalid `period` argument: unable to convert to an integer '\n                f'(a single location in `self.span`). '\n                f'`period` resolved to type {type(t)} with value {t}'\n            )\n\n        return self.solve_t(\n            t,\n            min_iter=min_iter,\n            max_iter=max_iter,\n            tol=tol,\n            offset=offset,\n            failures='ignore',", ['C05'], 'solve_period swallows failures=')

# ---- frame and reads (C04)
PAR = 'fsic/parser.py'
m('M08', MOD, "        # Optionally copy initial values from another period\n        if offset:\n            t_check = t\n", "        # Optionally copy initial values from another period\n        if offset and errors == 'raise':\n            pass\n        if offset:\n            t_check = t\n", [], 'placeholder')
m('M30', MOD, "        if t_check < self.lags:\n            raise IndexError(", "        if t_check < self.lags - 1:\n            raise IndexError(", ['C04'], 'lag feasibility guard off by one')
m('M31', MOD, "        if t_check >= len(self.span) - self.leads:\n            raise IndexError(\n                f'Position", "        if t >= len(self.span) - self.leads:\n            raise IndexError(\n                f'Position", ['C04'], 'lead guard ignores negative spelling')
m('M32', PAR, "                index = f'[t{self.index_}]'", "                index = f'[t{self.index_ - 1}]' if self.index_ < -1 else f'[t{self.index_}]'", ['C04'], 'lags deeper than 1 rendered one period too deep')
m('M33', PAR, "                index = f'[t+{self.index_}]'", "                index = f'[t-{self.index_}]' if self.index_ > 1 else f'[t+{self.index_}]'", ['C04'], 'leads beyond 1 rendered as lags')
m('M34', MOD, "                    if errors == 'raise':\n                        self.status[t] = SolutionStatus.ERROR.value\n                        self.iterations[t] = iteration\n\n                    raise SolutionError(\n                        f'Error after", "                    if errors == 'raise':\n                        self.status[t] = SolutionStatus.ERROR.value\n                        self.iterations[t - 1] = iteration\n\n                    raise SolutionError(\n                        f'Error after", ['C04', 'C06'], 'error bookkeeping lands on the previous period')
m('M35', MOD, "        # Error if `min_iter` exceeds `max_iter`\n        if min_iter > max_iter:\n            raise ValueError(\n                f'Value of `min_iter` ({min_iter}) '\n                f'cannot exceed value of `max_iter` ({max_iter})'\n            )\n\n        # Error if the period", "        # Error if the period", ['C04', 'C02'], 'min_iter guard removed from solve_t (max_iter loop simply never converges)')
m('M36', MOD, "            for name in self.endogenous:\n                self.__dict__['_' + name][t] = self.__dict__['_' + name][t + offset]", "            for name in self.names:\n                self.__dict__['_' + name][t] = self.__dict__['_' + name][t + offset]", ['C04'], 'offset copy overwrites exogenous variables too')

# ---- tracer (C17)
m('M70', EXT, "        return super().solve_t(t, *args, trace=trace, reset=reset, **kwargs)", "        return super().solve_t(t, *args, reset=reset, **kwargs)", ['C17'], 'solve_t does not forward trace')
m('M71', EXT, "        super()._evaluate(\n            t, *args, trace=trace, reset=reset, iteration=iteration, **kwargs\n        )", "        super()._evaluate(\n            t, *args, trace=trace, reset=reset, **kwargs\n        )", ['C17'], '_evaluate wrapper drops iteration')
m('M72', EXT, "        if trace:\n            self.trace_t(t, 'start', *args, trace=trace, reset=reset, **kwargs)", "        if True:\n            self.trace_t(t, 'start', *args, trace=trace, reset=reset, **kwargs)", ['C17'], 'start recorded with tracing off')
m('M73', EXT, "            self.trace_t(t, iteration, *args, trace=trace, reset=reset, **kwargs)", "            self.trace_t(t, iteration - 1, *args, trace=trace, reset=reset, **kwargs)", ['C17'], 'pass label off by one')
m('M75', EXT, "        super().solve_t_after(\n            t, *args, trace=trace, reset=reset, iteration=iteration, **kwargs\n        )\n\n        # Store final results\n        if trace:\n            self.trace_t(t, 'end', *args, trace=trace, reset=reset, **kwargs)", "        # Store final results\n        if trace:\n            self.trace_t(t, 'end', *args, trace=trace, reset=reset, **kwargs)\n\n        super().solve_t_after(\n            t, *args, trace=trace, reset=reset, iteration=iteration, **kwargs\n        )", ['C17'], 'end recorded before the parent post-hook')
m('M76', EXT, "        results = np.array([[self[x][t]] for x in names])", "        results = np.array([[self[x][t - 1 if t > 0 else t]] for x in names])", ['C17'], 'trace reads the previous period')
m('M77', EXT, "        if self[self.TRACE_NAME][t].is_empty() or reset:", "        if self[self.TRACE_NAME][t].is_empty() or reset or label == 'start':", ['C17'], 'every call restarts the trace (repeated solves lose history)')
m('M78', EXT, "        if trace:\n            self.trace_t(t, 'before', *args, trace=trace, reset=reset, **kwargs)", "        if trace:\n            self.trace_t(t, 'before', *args, trace=trace, reset=reset, **kwargs)\n            for _x in self.endogenous:\n                if not np.isfinite(self[_x][t]):\n                    self[_x][t] = 0.0", ['C17'], 'tracing sanitises non-finite start values')
