"""Self-tests of the machinery: determinism (same seed twice, fresh interpreters, other hash seed, other worker
count) and sensitivity (one-line mutants of fsic in a scratch copy must be reported by the owning check)."""
import json
import os
import shutil
import subprocess
import sys
import tempfile
from concurrent.futures import ThreadPoolExecutor

VERIF = os.path.dirname(os.path.dirname(os.path.abspath(__file__)))
REPO = os.environ.get('FSIC_REPO', '/repo')


def _run_check(prop, env_extra, args, timeout=1800):
    env = dict(os.environ)
    env.update(env_extra)
    p = subprocess.run([sys.executable, os.path.join(VERIF, 'check'), prop] + args, capture_output=True, text=True, env=env, timeout=timeout)
    return p.returncode, p.stdout + p.stderr


def determinism(props=None, runs=1500):
    from sim import registry

    props = props or sorted(registry.PROPS)
    bad = 0
    for prop in props:
        digs = []
        for hs, workers, seed in (('0', 16, 0), ('12345', 16, 0), ('0', 3, 0), ('999', 5, 0)):
            rc, out = _run_check(prop, {'PYTHONHASHSEED': hs, 'VERIF_SEED': str(seed), 'VERIF_FORCE_HASHSEED': hs}, ['--runs', str(runs), '--workers', str(workers), '--no-evidence'])
            d = [ln.split('batch_digest=')[1].split()[0] for ln in out.splitlines() if 'batch_digest=' in ln]
            digs.append((hs, workers, rc, d[0] if d else None))
        ok = len({d[3] for d in digs}) == 1 and digs[0][3] is not None
        print(f'determinism {prop}: {"ok" if ok else "MISMATCH"} {digs}')
        bad += 0 if ok else 1
    return bad


def make_scratch(mut):
    d = tempfile.mkdtemp(prefix='fsic-mut-')
    shutil.copytree(os.path.join(REPO, 'fsic'), os.path.join(d, 'fsic'), ignore=shutil.ignore_patterns('__pycache__'))
    path = os.path.join(d, mut['file'])
    s = open(path).read()
    if s.count(mut['find']) != 1:
        shutil.rmtree(d)
        return None
    open(path, 'w').write(s.replace(mut['find'], mut['replace']))
    return d


def one_mutant(mut, runs):
    res = []
    if not mut['expect']:
        return mut['id'], 'skipped', res
    d = make_scratch(mut)
    if d is None:
        return mut['id'], 'does-not-apply', res
    try:
        caught_any = False
        for prop in mut['expect']:
            rc, out = _run_check(prop, {'FSIC_REPO': d, 'VERIF_SEED': '0'}, ['--no-evidence', '--workers', '4'] + (['--runs', str(runs)] if runs else []))
            sigs = [ln.split()[1] for ln in out.splitlines() if ln.startswith('violation: ')]
            res.append((prop, rc, sigs[:3]))
            if rc == 1:
                caught_any = True
            elif rc != 0:
                res.append((prop, 'harness', out[-400:]))
        return mut['id'], 'caught' if caught_any else 'MISSED', res
    finally:
        shutil.rmtree(d, ignore_errors=True)


def sensitivity(only=None, runs=None):
    from selftest import mutants

    from sim import registry

    muts = [x for x in mutants.M if (only is None or x['id'] in only) and any(p in registry.PROPS for p in x['expect'])]
    for x in muts:
        x['expect'] = [p for p in x['expect'] if p in registry.PROPS]
    missed = 0
    with ThreadPoolExecutor(max_workers=4) as ex:
        for mid, verdict, res in ex.map(lambda x: one_mutant(x, runs), muts):
            print(f'mutant {mid}: {verdict} {res}')
            sys.stdout.flush()
            if verdict in ('MISSED', 'does-not-apply'):
                missed += 1
    print(f'sensitivity: {len(muts)} mutants, {missed} missed or inapplicable')
    return missed


def main(what):
    sys.path.insert(0, VERIF)
    rc = 0
    if what.startswith('M'):
        return 1 if sensitivity(only=what.split(',')) else 0
    if what in ('determinism', 'all'):
        rc |= 1 if determinism() else 0
    if what in ('sensitivity', 'all'):
        rc |= 1 if sensitivity() else 0
    return rc
