#!/venv/bin/python
"""Write seeded/INDEX.md: one row per filed seeded change (what it is, what catches it)."""
import json
import os
import re

root = os.path.join(os.path.dirname(os.path.dirname(os.path.abspath(__file__))), 'seeded')
rows = []
for sid in sorted(os.listdir(root)):
    mp = os.path.join(root, sid, 'meta.json')
    if not os.path.exists(mp):
        continue
    m = json.load(open(mp))
    notes = m.get('needs_to_manifest', '')
    first = ''
    for ln in notes.splitlines():
        ln = ln.strip().lstrip('#').strip()
        if ln:
            first = ln
            break
    first = re.sub(r'\s+', ' ', first)[:150]
    sigs = []
    for p, r in (m.get('checks') or {}).items():
        if r.get('exit') == 1:
            sigs.append(f"{p}: " + ', '.join(s.split('/', 1)[1] for s in r.get('signatures', [])[:2]))
    if sigs:
        verdict = '; '.join(sigs)
    elif m.get('obsolete'):
        verdict = 'OBSOLETE (a later fix: commit made the patch a no-op; caught while it was a behaviour change)'
    elif m.get('expected_miss'):
        verdict = 'NOT CAUGHT (documented gap: ' + re.sub(r'\s+', ' ', m['expected_miss'])[:160] + ' ...)'
    else:
        verdict = 'NOT CAUGHT'
    rows.append((sid, m['breaks_property'], first, verdict))
with open(os.path.join(root, 'INDEX.md'), 'w') as f:
    f.write('# Seeded changes (from independent sub-agents; each confirmed: applies, 240 baseline tests pass, demo fails with / passes without)\n\n')
    f.write(f'{len(rows)} changes; caught: {sum(1 for r in rows if not r[3].startswith(("NOT CAUGHT", "OBSOLETE")))}; documented gaps: {sum(1 for r in rows if r[3].startswith("NOT CAUGHT (documented"))}; obsolete: {sum(1 for r in rows if r[3].startswith("OBSOLETE"))}; not caught: {sum(1 for r in rows if r[3] == "NOT CAUGHT")}.\n\n')
    f.write('| id | property | mechanism (first line of the author\'s note) | caught by (check: first signatures) |\n|---|---|---|---|\n')
    for r in rows:
        f.write('| ' + ' | '.join(x.replace('|', '/') for x in r) + ' |\n')
print(len(rows), 'rows')
