#!/venv/bin/python
"""Write seeded/INDEX.md: one row per filed seeded change (what it is, what catches it)."""
import json
import os
import re

root = os.path.join(os.path.dirname(os.path.dirname(os.path.abspath(__file__))), 'seeded')
rows = []
for sid in sorted(os.listdir(root)):
    mp = os.path.join(root, sid, 'meta.json')
    if not os.path.exists(mp):
        continue
    m = json.load(open(mp))
    notes = m.get('needs_to_manifest', '')
    first = ''
    for ln in notes.splitlines():
        ln = ln.strip().lstrip('#').strip()
        if ln:
            first = ln
            break
    first = re.sub(r'\s+', ' ', first)[:150]
    sigs = []
    for p, r in (m.get('checks') or {}).items():
        if r.get('exit') == 1:
            sigs.append(f"{p}: " + ', '.join(s.split('/', 1)[1] for s in r.get('signatures', [])[:2]))
    rows.append((sid, m['breaks_property'], first, '; '.join(sigs) or ('NOT CAUGHT (documented gap: old spans with repeated labels are outside the oracle)' if m.get('expected_miss') else 'NOT CAUGHT')))
with open(os.path.join(root, 'INDEX.md'), 'w') as f:
    f.write('# Seeded changes (from independent sub-agents; each confirmed: applies, 240 baseline tests pass, demo fails with / passes without)\n\n')
    f.write(f'{len(rows)} changes; caught: {sum(1 for r in rows if not r[3].startswith("NOT CAUGHT"))}.\n\n')
    f.write('| id | property | mechanism (first line of the author\'s note) | caught by (check: first signatures) |\n|---|---|---|---|\n')
    for r in rows:
        f.write('| ' + ' | '.join(x.replace('|', '/') for x in r) + ' |\n')
print(len(rows), 'rows')
