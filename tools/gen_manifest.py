#!/venv/bin/python
"""Regenerate MANIFEST.json from the check registry (claimed properties) and the not-applicable list."""
import json
import os
import sys

sys.path.insert(0, os.path.dirname(os.path.dirname(os.path.abspath(__file__))))
os.environ.setdefault('PYTHONHASHSEED', '0')
from sim import registry  # noqa: E402

TEXT = json.load(open(os.path.join(os.path.dirname(os.path.abspath(__file__)), 'manifest_text.json')))

checks = []
for prop in sorted(registry.PROPS):
    cfg = registry.PROPS[prop]
    t = TEXT['checks'][prop]
    checks.append(
        {
            'property_id': prop,
            'quick_cmd': f'./check {prop} --tier quick',
            'thorough_cmd': f'./check {prop} --tier thorough',
            'evidence_file': f'evidence/{prop}.json',
            'replay_cmd_template': './check --replay {path}',
            'engine': 'fsic-sim',
            'level_claimed': {'category': cfg['level'], 'text': t['level_text'], 'design_ref': t['design_ref']},
            'level_note': t['level_note'],
            'technique': t['technique'],
        }
    )
claimed = set(registry.PROPS)
na = [x for x in TEXT['not_applicable'] if x['property_id'] not in claimed]
for x in TEXT.get('not_yet', []):
    if x['property_id'] not in claimed:
        na.append(x)
na.sort(key=lambda x: x['property_id'])
m = {
    'version': 1,
    'setup_cmd': TEXT['setup_cmd'],
    'hooks': TEXT['hooks'],
    'engines': [
        {
            'name': 'fsic-sim',
            'path': 'sim/',
            'serves_properties': sorted(claimed),
            'kind_free_text': 'single-process deterministic operation-and-fault-sequence simulator: one PRNG value per run decides the schedule of operations, the behaviour of every scripted evaluation pass / hook and every injected fault; executable reference models and twin runs are the oracles; delta-debugging minimiser; JSON replay files',
        }
    ],
    'checks': checks,
    'notes': TEXT['notes'],
    'not_applicable': na,
}
with open(os.path.join(registry.VERIF, 'MANIFEST.json'), 'w') as f:
    json.dump(m, f, indent=1)
    f.write('\n')
print('MANIFEST.json:', len(checks), 'checks,', len(na), 'not applicable')
