#!/bin/bash
# False-alarm screen: the quick tier of every property under many VERIF_SEED values. Usage: tools/seedscan.sh <from> <to>
cd "$(dirname "$0")/.."
bad=0
for s in $(seq ${1:-1} ${2:-20}); do
  out=$(VERIF_SEED=$s ./tools/allquick.sh 2>&1 | grep -v conda); rc=$?
  n=$(echo "$out" | grep -c "exit=0")
  echo "seed=$s ok=$n/11"
  if [ "$n" != "11" ]; then bad=1; echo "$out" | grep -v "exit=0" | cut -c1-300; fi
done
exit $bad
