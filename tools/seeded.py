#!/venv/bin/python
"""Confirm and file seeded changes produced by independent sub-agents, and run the checks against them.

  seeded.py intake <prop> [<src dir>]   confirm every patch_i/demo_i under /tmp/seedout/<prop>: applies to a scratch
                                        worktree of /repo HEAD, existing suite still has its 240 passes, demo exits 1
                                        with the patch and 0 without; then run the owning check(s) against the scratch
                                        tree; file confirmed ones under /verif/seeded/<prop>-<i>/
  seeded.py run [<id> ...]              re-run the checks against every filed seeded change (scratch worktree of HEAD)
"""
import json
import os
import shutil
import subprocess
import sys
import tempfile
import xml.etree.ElementTree as ET
from concurrent.futures import ThreadPoolExecutor

VERIF = os.path.dirname(os.path.dirname(os.path.abspath(__file__)))
REPO = '/repo'
PY = '/venv/bin/python'
BASE = json.load(open('/root/.vp/BASELINE.json'))


def sh(cmd, cwd=None, env=None, timeout=3600):
    p = subprocess.run(cmd, shell=isinstance(cmd, str), cwd=cwd, env=env, capture_output=True, text=True, timeout=timeout)
    return p.returncode, p.stdout + p.stderr


def scratch_tree(patch):
    d = tempfile.mkdtemp(prefix='fsic-seed-')
    os.rmdir(d)
    rc, out = sh(['git', '-C', REPO, 'worktree', 'add', '-q', '--detach', d, 'HEAD'])
    if rc:
        raise RuntimeError(out)
    rc, out = sh(['git', '-C', d, 'apply', patch])
    if rc:
        rc, out = sh(['git', '-C', d, 'apply', '--3way', patch])
    return d, rc, out


def drop_tree(d):
    sh(['git', '-C', REPO, 'worktree', 'remove', '--force', d])
    shutil.rmtree(d, ignore_errors=True)
    sh(['git', '-C', REPO, 'worktree', 'prune'])


def suite_passes(d):
    env = dict(os.environ, PYTHONPATH=d)
    env.pop('FSIC_VERIF', None)
    xml = os.path.join(d, '_junit.xml')
    sh(f'cd {d} && {PY} -m pytest -q -p no:cacheprovider --timeout=900 --continue-on-collection-errors --junitxml={xml} tests', env=env)
    passed = set()
    for tc in ET.parse(xml).getroot().iter('testcase'):
        if not any(c.tag in ('failure', 'error', 'skipped') for c in tc):
            passed.add(f"{tc.get('classname')}::{tc.get('name')}")
    os.remove(xml)
    missing = sorted(set(BASE['stable_pass']) - passed)
    return missing


def run_checks(d, props, runs=None):
    res = {}
    for prop in props:
        env = dict(os.environ, FSIC_REPO=d, VERIF_SEED='0')
        cmd = [os.path.join(VERIF, 'check'), prop, '--no-evidence', '--workers', '8'] + (['--runs', str(runs)] if runs else [])
        rc, out = sh(cmd, env=env)
        sigs = [ln.split()[1] for ln in out.splitlines() if ln.startswith('violation: ')]
        res[prop] = {'exit': rc, 'signatures': sigs[:6], 'harness': out[-300:] if rc not in (0, 1) else None}
    return res


def claimed():
    m = json.load(open(os.path.join(VERIF, 'MANIFEST.json')))
    return [c['property_id'] for c in m['checks']]


def intake_one(prop, src, i, extra_props, tag=''):
    patch = os.path.join(src, f'patch_{i}.diff')
    demo = os.path.join(src, f'demo_{i}.py')
    notes = os.path.join(src, f'notes_{i}.md')
    if not (os.path.exists(patch) and os.path.exists(demo)):
        return None
    d, rc, out = scratch_tree(patch)
    rep = {'id': f'{prop}-{tag}{i}', 'property': prop, 'applies': rc == 0}
    try:
        if rc:
            rep['apply_error'] = out[-300:]
            return rep
        missing = suite_passes(d)
        rep['suite_missing'] = missing
        rc1, o1 = sh([PY, demo], cwd=d, env=dict(os.environ, PYTHONPATH=d))
        rc0, o0 = sh([PY, demo], cwd='/tmp', env=dict(os.environ, PYTHONPATH=REPO))
        rep['demo_with_patch'] = rc1
        rep['demo_without_patch'] = rc0
        rep['demo_output_with_patch'] = o1.strip().splitlines()[-3:]
        rep['confirmed'] = (not missing) and rc1 == 1 and rc0 == 0
        props = [p for p in [prop] + extra_props if p in claimed()]
        rep['checks'] = run_checks(d, props)
        rep['caught_by'] = [p for p, r in rep['checks'].items() if r['exit'] == 1]
    finally:
        drop_tree(d)
    if rep.get('confirmed'):
        dst = os.path.join(VERIF, 'seeded', rep['id'])
        os.makedirs(dst, exist_ok=True)
        shutil.copy(patch, os.path.join(dst, 'patch.diff'))
        shutil.copy(demo, os.path.join(dst, 'demo.py'))
        if os.path.exists(notes):
            shutil.copy(notes, os.path.join(dst, 'notes.md'))
        meta = {
            'id': rep['id'],
            'breaks_property': prop,
            'source': 'independent sub-agent given only the property text and a scratch worktree',
            'needs_to_manifest': open(notes).read() if os.path.exists(notes) else '',
            'confirmed': {
                'applies_to_repo_head': True,
                'existing_suite': '240 baseline tests still pass with the patch (pytest over tests/, compared with BASELINE.json stable_pass)',
                'demo_exit_with_patch': rc1,
                'demo_exit_without_patch': rc0,
            },
            'what_i_ran': f'tools/seeded.py intake {prop}: scratch worktree of /repo HEAD + git apply; pytest; demo with/without; ./check <prop> with FSIC_REPO=<scratch>',
            'checks': rep['checks'],
            'caught_by': rep['caught_by'],
        }
        json.dump(meta, open(os.path.join(dst, 'meta.json'), 'w'), indent=1)
    return rep


def intake(prop, src=None, extra_props=()):
    tag = ''
    if src and 'seedout' in src and src.rstrip('/').split('/')[-2] != 'seedout':
        tag = 'r' + src.rstrip('/').split('/')[-2].replace('seedout', '') + '-'
    src = src or f'/tmp/seedout/{prop}'
    with ThreadPoolExecutor(max_workers=3) as ex:
        for rep in ex.map(lambda i: intake_one(prop, src, i, list(extra_props), tag), range(1, 8)):
            if rep is None:
                continue
            print(json.dumps({k: v for k, v in rep.items() if k not in ('checks',)}, default=str)[:900])
            for p, r in (rep.get('checks') or {}).items():
                print('   check', p, 'exit', r['exit'], r['signatures'][:4], r['harness'] or '')
            sys.stdout.flush()


def rerun(ids):
    root = os.path.join(VERIF, 'seeded')
    ids = ids or sorted(x for x in os.listdir(root) if os.path.isdir(os.path.join(root, x)))

    def one(sid):
        meta = json.load(open(os.path.join(root, sid, 'meta.json')))
        d, rc, out = scratch_tree(os.path.join(root, sid, 'patch.diff'))
        try:
            if rc:
                return sid, 'PATCH-DOES-NOT-APPLY', {}
            props = sorted(set([meta['breaks_property']] + meta.get('also_check', [])) & set(claimed()))
            res = run_checks(d, props)
            verdict = 'caught' if any(r['exit'] == 1 for r in res.values()) else 'MISSED'
            if verdict == 'MISSED' and meta.get('expected_miss'):
                verdict = 'missed-as-documented'
            if verdict == 'MISSED' and meta.get('obsolete'):
                verdict = 'obsolete'  # a later fix: commit made the patch a no-op (its demo passes with the patch applied)
            return sid, verdict, res
        finally:
            drop_tree(d)

    missed = 0
    with ThreadPoolExecutor(max_workers=2) as ex:
        for sid, verdict, res in ex.map(one, ids):
            print(sid, verdict, {p: (r['exit'], r['signatures'][:3]) for p, r in res.items()})
            sys.stdout.flush()
            if verdict not in ('caught', 'missed-as-documented', 'obsolete'):
                missed += 1
            mp = os.path.join(root, sid, 'meta.json')
            meta = json.load(open(mp))
            meta['checks'] = res
            meta['caught_by'] = [p for p, r in res.items() if r['exit'] == 1]
            json.dump(meta, open(mp, 'w'), indent=1)
    print(f'seeded changes: {len(ids)}, not caught: {missed}')
    return missed


if __name__ == '__main__':
    if sys.argv[1] == 'intake':
        intake(sys.argv[2], sys.argv[3] if len(sys.argv) > 3 and sys.argv[3].startswith('/') else None, [a for a in sys.argv[3:] if not a.startswith('/')])
    elif sys.argv[1] == 'run':
        sys.exit(1 if rerun(sys.argv[2:]) else 0)
