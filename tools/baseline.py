#!/venv/bin/python
"""Run the repository's pinned test command (hooks off: no FSIC_VERIF in the environment) and compare with BASELINE.json."""
import json
import os
import subprocess
import sys
import tempfile
import xml.etree.ElementTree as ET

base = json.load(open('/root/.vp/BASELINE.json'))
env = {k: v for k, v in os.environ.items() if k != 'FSIC_VERIF'}
with tempfile.TemporaryDirectory() as d:
    xml = os.path.join(d, 'junit.xml')
    cmd = base['cmd'].replace('<file>', xml)
    subprocess.run(cmd, shell=True, env=env, stdout=subprocess.DEVNULL, stderr=subprocess.DEVNULL)
    passed = set()
    for tc in ET.parse(xml).getroot().iter('testcase'):
        if not any(c.tag in ('failure', 'error', 'skipped') for c in tc):
            passed.add(f"{tc.get('classname')}::{tc.get('name')}")
missing = sorted(set(base['stable_pass']) - passed)
print(f"baseline stable tests: {len(base['stable_pass'])}, passing now: {len(set(base['stable_pass']) & passed)}, total passing: {len(passed)}")
for m in missing:
    print('NO LONGER PASSING:', m)
sys.exit(1 if missing else 0)
