#!/venv/bin/python
"""Print the prompt given to a fresh sub-agent asked to break one property (only the property text and its own worktree)."""
import json
import sys

pid = sys.argv[1]
rnd = sys.argv[2] if len(sys.argv) > 2 else '1'
wt = f'/tmp/wt/{pid}' if rnd == '1' else f'/tmp/wt{rnd}/{pid}'
out = f'/tmp/seedout/{pid}' if rnd == '1' else f'/tmp/seedout{rnd}/{pid}'
EXTRA = '' if rnd == '1' else '''

IMPORTANT - make them HARD TO FIND: assume a reviewer already exercises every clause of the property with straightforward randomised tests on freshly built objects with the common option values, and would catch any change whose effect shows up in a single ordinary call. Prefer changes whose effect depends on (a) the earlier HISTORY of the same object (previous solves or failures of the same period, copies, reindexing, variables added later, strict toggled, lags/leads changed at run time, a previous call that raised), (b) rarely combined options or boundary values (for example tol=0, min_iter == max_iter, negative positions together with offsets, empty check lists, zero-length or length-one spans, labels that are falsy or compare equal across types), (c) process-global or class-level state (the warnings filter stack, the numpy error state, class attributes shared by instances, mutable default arguments, caches), (d) particular span / label / dtype kinds (NumPy arrays, pandas PeriodIndex or DatetimeIndex, tuples as labels, string and boolean dtypes), or (e) the interplay of two modules or two call sites that each look fine alone. Do not reuse the most obvious one-line edits (flipping a comparison, an off-by-one in a range, dropping an argument).''' + ('' if rnd != '3' else '''

Earlier seeders have ALREADY used the following ideas, so find something DIFFERENT: caches (of label positions, slices, check arrays, feasibility bounds, alias maps, span length) that go stale across copy()/reindex()/add_variable(); changing or leaking the NumPy error state or the warnings filters; storing a caller's array without copying; class-level attributes shared between instances or inherited by subclasses; treating falsy labels / fill values as absent; moving an argument check before/after the offset copy; resetting status/iterations too early; shallow copies of object arrays; mutable default arguments; narrowing which warning categories are errors; NaN comparisons that flip a convergence test. Think instead about: interactions with pandas / NumPy semantics (dtype promotion, views vs copies from slicing, object-dtype arrays, zero-length arrays, non-contiguous arrays, datetime resolution, duplicate or unsorted index labels), Python semantics (operator precedence in rewritten conditions, truthiness of arrays and of numpy scalars, int vs numpy integer, dict ordering, exception chaining and `finally`, keyword arguments swallowed by **kwargs, method resolution order with several mixins), bookkeeping that is only wrong on the SECOND of two consecutive faults or calls, behaviour that differs between solve / solve_period / solve_t entry points, and behaviour that differs only for linkers nested in linkers or models with zero endogenous variables.''')
prop = None
for line in open('/verif/properties.jsonl'):
    p = json.loads(line)
    if p['id'] == pid:
        prop = p
assert prop
N_CHANGES = 'SIX' if rnd == '4' else 'THREE'
N_RANGE = '1..6' if rnd == '4' else '1..3'
if rnd == '5':
    EXTRA = '''\n\nSTYLE FOR THIS ROUND: each change must consist of TWO (or three) COOPERATING EDITS IN DIFFERENT FUNCTIONS - preferably in different files - where each edit on its own is behaviour-preserving (a refactoring, a new helper, a renamed or re-ordered argument, a moved statement, a changed default that is always overridden, a cache that is always invalidated) and only their combination breaks the property. Say in the notes why each edit alone is harmless and include in demo_i.py a check that applying only one of the two edits keeps the demo passing if that is easy to show. Prefer code that earlier seeders have not touched: fsic/tools.py (model_to_dataframe / linker_to_dataframes, used by to_dataframe), fsic/core/interfaces.py (PeriodIter, iter_periods, ModelInterface.__init__, get_closest_match, the values property), fsic/exceptions.py, fsic/functions.py, the class templates and build_model in fsic/parser.py (as far as the existing tests allow), fsic/extensions/common.py (ProgressBarMixin, __dir__) and the interplay between BaseLinker and the mixins - but only where that code takes part in the property. Avoid the ideas already used in earlier rounds: stale caches across copy()/reindex(), NumPy error state or warnings filters, shared caller arrays, class-level shared lists, falsy labels, arguments not forwarded by solve_period, moving checks around the offset copy.'''
if rnd == '4':
    EXTRA = '''\n\nSTYLE FOR THIS ROUND: small, realistic slips - each change is a ONE-TO-THREE-LINE edit of the kind that survives code review (a wrong variable of two similar ones, `<` for `<=`, a condition that forgets one case, an argument not passed on, a default changed, the wrong one of two lists, an early return, an index off by one, `is` for `==`, a swallowed exception, a value computed before instead of after a step). Put each of the six in a DIFFERENT function, and spread them over every source file that takes part in the property. The existing test suite must still pass for each, so aim at the behaviour the suite does not pin down.'''
print(f"""You are working on a scratch git worktree of the Python library ChrisThoung/fsic (a small macroeconomic modelling library: equation-script parser that generates model classes, plus a per-period Gauss-Seidel solver). Your worktree is {wt}. Work ONLY inside {wt} and {out}. Never read or touch /repo or /verif (they are off limits), and do not look for other people's work elsewhere on the disk.

How to run things:
- Always run Python as:  cd {wt} && PYTHONPATH={wt} /venv/bin/python ...   (the venv has fsic installed in editable mode pointing somewhere else, so PYTHONPATH={wt} is REQUIRED for your modified copy to be imported; verify once with: cd {wt} && PYTHONPATH={wt} /venv/bin/python -c 'import fsic; print(fsic.__file__)' which must print a path under {wt}).
- Existing test suite:  cd {wt} && PYTHONPATH={wt} /venv/bin/python -m pytest -q -p no:cacheprovider tests/test_core.py tests/test_extensions.py tests/test_functions.py tests/test_parser.py tests/test_tools.py tests/test_fortran.py 2>&1 | tail -5
  At baseline exactly 240 tests pass and 112 fail (all failures are in tests/test_fortran.py because f2py/Meson is missing, plus tests/test_tools.py::TestPandasFunctions::test_dataframe_to_symbols). "Passing the existing tests" means: the same 240 tests still pass (same 112 failures, no new ones). There is no network.

Here is a semantic property that the library is supposed to satisfy:

TITLE: {prop['title']}

STATEMENT: {prop['statement']}

IT IS MEANT TO HOLD FOR: {prop['quantifier']['text']}

YOUR TASK: produce {N_CHANGES} different changes to the library source (files under {wt}/fsic/) each of which BREAKS this property (any clause of it) while the package still imports and the existing test suite still passes exactly as at baseline. The changes must use different mechanisms / touch different clauses of the property where it has several. Each change should look like a realistic mistake (a plausible refactoring slip, optimisation, or 'improvement' a developer could make) and must need something SPECIFIC to manifest - e.g. a particular sequence of several operations, a fault/exception/non-finite value at a particular point, a particular option combination or unusual input, a boundary value, or two cooperating edits that each look fine alone - NOT something that ordinary use (e.g. just constructing and solving a typical model with default options) would expose at once. Subtle is better than blatant, but it must be a real violation of the property as stated, demonstrable through the public API.{EXTRA}

For each change i in {N_RANGE} write into {out}/:
  - patch_i.diff : output of `git -C {wt} diff` for that change alone (relative to the clean worktree; must apply with `git apply` to a clean checkout of the same commit)
  - demo_i.py    : a small standalone program (imports fsic, numpy, etc.) that exits with status 0 and prints OK when run against the UNCHANGED library, and exits with status 1 printing what went wrong when run against the library with patch_i applied. It must demonstrate a violation of the property above (say which clause in a comment).
  - notes_i.md   : 5-10 lines: what was changed, which clause of the property it breaks, what exactly is needed for it to manifest, and the test-suite result you observed with the patch applied (number passed/failed).
Before writing each patch file, actually run the test suite with the change applied and confirm 240 passed; run demo_i.py with and without the change to confirm exit codes 1 and 0. Reset the worktree between changes with `git -C {wt} checkout -- .` and leave it clean at the end (`git -C {wt} status --short` shows no modified tracked files). Do not commit anything. In your final message, list the changes in one line each.""")
