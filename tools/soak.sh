#!/bin/bash
# Soundness soak: thorough tier of every claimed property under a given VERIF_SEED; prints one summary line per property.
# Usage: tools/soak.sh <seed> [runs-per-property]
seed=${1:-1}
runs=${2:-}
cd "$(dirname "$0")/.."
for p in C02 C04 C05 C06 C08 C09 C10 C11 C12 C17 C18; do
  if [ -n "$runs" ]; then extra="--runs $runs"; else extra=""; fi
  VERIF_SEED=$seed ./check $p --tier thorough --no-evidence $extra 2>&1 | grep -E "^\[|^violation|^VIOLATION|HARNESS|KNOWN" | cut -c1-400 | tail -8
  echo "exit=$? property=$p seed=$seed"
done
