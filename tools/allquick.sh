#!/bin/bash
# Run every claimed property's quick check (no evidence written unless -e); print one line each; exit 1 if any is not 0.
cd "$(dirname "$0")/.."
ev="--no-evidence"; [ "$1" = "-e" ] && ev=""
rc=0
for p in C02 C04 C05 C06 C08 C09 C10 C11 C12 C17 C18; do
  out=$(./check $p $ev 2>&1); code=$?
  echo "$p exit=$code $(echo "$out" | grep -E "^\[$p\] runs=" | sed 's/ distinct.*//' | cut -c1-90) $(echo "$out" | grep -cE '^VIOLATION') viol"
  [ $code -ne 0 ] && { rc=1; echo "$out" | grep -E "HARNESS|^violation" | head -5 | cut -c1-300; }
done
exit $rc
